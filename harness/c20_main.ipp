// C20 harness, part 3: sessions, op loop (included by c20.cpp).
namespace {

/// a change of the data of a problem object (`mutate …` / `mutatew …` ops)
struct Mut {
    std::string what; // "C", "D" (bounds), "const" (the cost / terminal cost becomes the constant v)
    vec lb, ub;
    real_t v = 0;
};
// what a mutation means for each kind of underlying problem; "unsupported" when the class has no such data
inline std::string apply_mut(NativeBase &u, const Mut &m, int ep) {
    if (m.what == "C") { if (m.lb.size() != u.n) return "bad-size"; u.C.lowerbound = m.lb; u.C.upperbound = m.ub; }
    else if (m.what == "D") { if (m.lb.size() != u.m) return "bad-size"; u.D.lowerbound = m.lb; u.D.upperbound = m.ub; }
    else if (m.what == "const") { u.has_fconst = true; u.fconst = m.v; }
    else return "unsupported";
    u.epoch = ep;
    return "ok";
}
inline std::string apply_mut(alpaqa::FunctionalProblem<config_t> &u, const Mut &m, int ep) {
    if (m.what == "C") { if (m.lb.size() != u.n) return "bad-size"; u.C.lowerbound = m.lb; u.C.upperbound = m.ub; }
    else if (m.what == "D") { if (m.lb.size() != u.m) return "bad-size"; u.D.lowerbound = m.lb; u.D.upperbound = m.ub; }
    else if (m.what == "const") { real_t v = m.v; u.f = [v](crvec) { LOG("eval_f"); return v; }; }
    else return "unsupported";
    (void)ep;
    return "ok";
}
inline std::string apply_mut(OcpBase &u, const Mut &m, int ep) {
    if (m.what == "D") { if (m.lb.size() != u.nc) return "bad-size"; u.has_Dov = true; u.Dov = Box{u.nc}; u.Dov.lowerbound = m.lb; u.Dov.upperbound = m.ub; }
    else if (m.what == "const") { u.has_lN = true; u.lNconst = m.v; }
    else return "unsupported";
    u.epoch = ep;
    return "ok";
}
inline std::string apply_mut(alpaqa::dl::DLProblem &, const Mut &, int) { return "unsupported"; }
inline std::string apply_mut(alpaqa::dl::DLControlProblem &, const Mut &, int) { return "unsupported"; }

struct Handle {
    std::shared_ptr<void> obj;
    std::unique_ptr<TEP> te, dte;   // te: over the counting wrapper; dte: over this handle's reference object
    std::unique_ptr<TEO> teo, dteo;
    std::function<std::string()> cnt;
    std::function<bool()> is_null;
    std::function<Handle()> copy;
    std::function<void()> decouple, reset;
    std::function<std::string(const Mut &, int)> mutate_own; // through the wrapper's own `problem` member
    bool is_ref = false;
    length_t rw = 0, sw = 0, drw = 0, dsw = 0;
};

template <class U>
constexpr bool is_ocp_v = requires(const U &u) { u.get_nx(); };
// the library's helper functions (these, not the class templates, are what the op `create` / `createref` run)
template <class U>
auto wrap_value(const U &u) {
    if constexpr (is_ocp_v<U>) return alpaqa::ocproblem_with_counters(u);
    else return alpaqa::problem_with_counters(u);
}
template <class U>
auto wrap_reference(U &u) {
    if constexpr (is_ocp_v<U>) return alpaqa::ocproblem_with_counters_ref(u);
    else return alpaqa::problem_with_counters_ref(u);
}

/// `w`: the wrapper under test.  `refu`: the object that the property says the wrapper must behave like —
/// for a by-reference wrapper the underlying problem itself (whatever its data are *now*), for a by-value
/// wrapper a plain copy of the problem taken by the harness when the wrapper was made (copied again when the
/// wrapper is copied, changed when the wrapper's own `problem` member is changed).  It never goes through
/// ProblemWithCounters.
template <class U, class W>
Handle make_handle(std::shared_ptr<W> w, std::shared_ptr<U> refu, bool is_ref) {
    Handle h;
    h.obj    = w;
    h.is_ref = is_ref;
    if constexpr (is_ocp_v<U>) {
        h.teo  = std::make_unique<TEO>(w.get());
        h.rw   = h.teo->get_R_work_size();
        h.sw   = h.teo->get_S_work_size();
        h.dteo = std::make_unique<TEO>(refu.get());
        h.drw  = h.dteo->get_R_work_size();
        h.dsw  = h.dteo->get_S_work_size();
    } else {
        h.te  = std::make_unique<TEP>(w.get());
        h.dte = std::make_unique<TEP>(refu.get());
    }
    h.cnt      = [w] { return w->evaluations ? fmt_cnt(*w->evaluations) : std::string("null"); };
    h.is_null  = [w] { return !w->evaluations; };
    h.copy     = [w, refu, is_ref] {
        return make_handle<U, W>(std::make_shared<W>(*w), is_ref ? refu : std::make_shared<U>(*refu), is_ref);
    };
    h.decouple = [w] { w->decouple_evaluations(); };
    h.reset    = [w] { w->reset_evaluations(); };
    if constexpr (!std::is_reference_v<decltype(w->problem)>)
        h.mutate_own = [w, refu](const Mut &m, int ep) {
            std::string a = apply_mut(w->problem, m, ep);
            if (a == "ok") apply_mut(*refu, m, ep);
            return a;
        };
    return h;
}

/// `create` (by value, `problem_with_counters(u)`) and `createref` (`problem_with_counters_ref(u)`) of one underlying problem
template <class U>
std::function<Handle(bool)> creator(std::shared_ptr<U> u) {
    return [u](bool by_ref) {
        if (by_ref) {
            using WR = decltype(wrap_reference(*u));
            return make_handle<U, WR>(std::make_shared<WR>(wrap_reference(*u)), u, true);
        }
        using WV = decltype(wrap_value(*u));
        return make_handle<U, WV>(std::make_shared<WV>(wrap_value(*u)), std::make_shared<U>(*u), false);
    };
}

struct Session {
    bool ocp = false, fragile = false;
    std::vector<std::shared_ptr<void>> keep;
    std::unique_ptr<TEP> d, r;
    std::unique_ptr<TEO> od, orf;
    length_t drw = 0, dsw = 0, rrw = 0, rsw = 0;
    std::function<Handle(bool)> create;                 // true: by reference
    std::function<std::string(const Mut &, int)> mutate; // changes the underlying problem (and what mirrors it)
    bool has_epoch = false;                               // native classes report the stamp of the object evaluated
    int epoch_ctr  = 0;
    std::vector<Handle> ws;
    c20_log_take_t log_take      = nullptr;
    const char *const *log_names = nullptr;
    std::function<void()> cleanup;
    ~Session() {
        ws.clear();
        d.reset(); r.reset(); od.reset(); orf.reset();
        if (cleanup) cleanup();
    }
    std::vector<std::string> take_log() {
        std::vector<std::string> out;
        if (log_take) {
            int b[4096];
            int k = log_take(b, 4096);
            for (int i = 0; i < k; ++i) out.emplace_back(log_names[b[i]]);
        } else {
            out.swap(g_log);
        }
        g_log.clear();
        return out;
    }
};

// ---- native instantiations (HAS, PROV); index = first token after `new native`
constexpr uint32_t bit(int b) { return 1u << b; }
constexpr uint32_t ALLB = (1u << NB_COUNT) - 1;
template <uint32_t HAS, uint32_t PROV>
std::unique_ptr<Session> native_session(uint32_t pv, length_t n, length_t m) {
    using U = NP<HAS, PROV>;
    auto u  = std::make_shared<U>();
    u->init(n, m, pv);
    auto s = std::make_unique<Session>();
    s->keep.push_back(u);
    s->d      = std::make_unique<TEP>(u.get());
    s->create    = creator<U>(u);
    s->mutate    = [u](const Mut &m, int ep) { return apply_mut(*u, m, ep); };
    s->has_epoch = true;
    return s;
}
#define NATIVE_LIST(X)                                                                                                  \
    X(0, 0u, 0u)                                                                                                        \
    X(1, ALLB, 0u)                                                                                                      \
    X(2, ALLB, ALLB)                                                                                                    \
    X(3, ALLB, bit(B_HPP))                                                                                              \
    X(4, bit(B_HLP) | bit(B_HL) | bit(B_HLSP), 0u)                                                                      \
    X(5, bit(B_FGF) | bit(B_FG) | bit(B_GFGGP), bit(B_FG))                                                              \
    X(6, bit(B_GL) | bit(B_PSI) | bit(B_CHECK), bit(B_GL))                                                              \
    X(7, bit(B_GPSI) | bit(B_PGP) | bit(B_NAME), bit(B_PGP))                                                            \
    X(8, bit(B_JAC) | bit(B_GRADGI) | bit(B_INACT) | bit(B_BOXC) | bit(B_BOXD) | bit(B_JACSP), bit(B_JAC) | bit(B_BOXC)) \
    X(9, bit(B_HPP) | bit(B_HP) | bit(B_HPSP), bit(B_HPP) | bit(B_HP))                                                  \
    X(10, bit(B_HPP) | bit(B_HLP) | bit(B_FGF) | bit(B_PSI) | bit(B_GPSI), bit(B_HPP) | bit(B_HLP))                     \
    X(11, ALLB & ~(bit(B_HP) | bit(B_FG) | bit(B_GL)), ALLB & ~(bit(B_HP) | bit(B_HPP) | bit(B_PSI)))
#ifdef C20_THOROUGH
#define NATIVE_LIST2(X)                                                                                                 \
    X(12, 0x0AAAAAu & ALLB, 0x0A0A0Au & ALLB)                                                                           \
    X(13, 0x155555u & ALLB, 0x050505u & ALLB)                                                                           \
    X(14, 0x0F0F0Fu & ALLB, 0x0F0F0Fu & ALLB & ~(bit(B_HP) | bit(B_HPP)))                                               \
    X(15, 0x1C71C7u & ALLB, 0x0C30C3u & ALLB & ~(bit(B_HP) | bit(B_HPP)))                                               \
    X(16, 0x1E3F81u & ALLB, 0u)                                                                                         \
    X(17, 0x03FFFFu & ALLB, 0x03FE7Fu & ALLB)                                                                           \
    X(18, bit(B_HP) | bit(B_HL), bit(B_HP))                                                                             \
    X(19, bit(B_HPSP) | bit(B_HLSP) | bit(B_JACSP), bit(B_HLSP))
#else
#define NATIVE_LIST2(X)
#endif
// thorough tier: member ABSENT at compile time (not merely provides_ == false): every single optional member
// missing, every single optional member as the only one
#ifdef C20_THOROUGH
#define NATIVE_LIST3(X)                                                                                                 \
    X(20, ALLB & ~bit(0), 0u)                                                                                  \
    X(21, ALLB & ~bit(1), 0u)                                                                                  \
    X(22, ALLB & ~bit(2), 0u)                                                                                  \
    X(23, ALLB & ~bit(3), 0u)                                                                                  \
    X(24, ALLB & ~bit(4), 0u)                                                                                  \
    X(25, ALLB & ~bit(5), 0u)                                                                                  \
    X(26, ALLB & ~bit(6), 0u)                                                                                  \
    X(27, ALLB & ~bit(7), 0u)                                                                                  \
    X(28, ALLB & ~bit(8), 0u)                                                                                  \
    X(29, ALLB & ~bit(9), 0u)                                                                                  \
    X(30, ALLB & ~bit(10), 0u)                                                                                  \
    X(31, ALLB & ~bit(11), 0u)                                                                                  \
    X(32, ALLB & ~bit(12), 0u)                                                                                  \
    X(33, ALLB & ~bit(13), 0u)                                                                                  \
    X(34, ALLB & ~bit(14), 0u)                                                                                  \
    X(35, ALLB & ~bit(15), 0u)                                                                                  \
    X(36, ALLB & ~bit(16), 0u)                                                                                  \
    X(37, ALLB & ~bit(17), 0u)                                                                                  \
    X(38, ALLB & ~bit(18), 0u)                                                                                  \
    X(39, ALLB & ~bit(19), 0u)                                                                                  \
    X(40, ALLB & ~bit(20), 0u)                                                                                  \
    X(41, bit(0), 0u)                                                                                          \
    X(42, bit(1), 0u)                                                                                          \
    X(43, bit(2), 0u)                                                                                          \
    X(44, bit(3), 0u)                                                                                          \
    X(45, bit(4), 0u)                                                                                          \
    X(46, bit(5), 0u)                                                                                          \
    X(47, bit(6), 0u)                                                                                          \
    X(48, bit(7), 0u)                                                                                          \
    X(49, bit(8), 0u)                                                                                          \
    X(50, bit(9), 0u)                                                                                          \
    X(51, bit(10), 0u)                                                                                          \
    X(52, bit(11), 0u)                                                                                          \
    X(53, bit(12), 0u)                                                                                          \
    X(54, bit(13), 0u)                                                                                          \
    X(55, bit(14), 0u)                                                                                          \
    X(56, bit(15), 0u)                                                                                          \
    X(57, bit(16), 0u)                                                                                          \
    X(58, bit(17), 0u)                                                                                          \
    X(59, bit(18), 0u)                                                                                          \
    X(60, bit(19), 0u)                                                                                          \
    X(61, bit(20), 0u)
#else
#define NATIVE_LIST3(X)
#endif

std::unique_ptr<Session> new_native(int idx, uint32_t has, uint32_t prov, uint32_t pv, length_t n, length_t m) {
    switch (idx) {
#define X(i, H, P) case i: return ((H) == has && (P) == prov) ? native_session<(H), (P)>(pv, n, m) : nullptr;
        NATIVE_LIST(X)
        NATIVE_LIST2(X)
        NATIVE_LIST3(X)
#undef X
        default: return nullptr;
    }
}

std::unique_ptr<Session> new_functional(uint32_t fmask, length_t n, length_t m) {
    using FP = alpaqa::FunctionalProblem<config_t>;
    auto u   = std::make_shared<FP>(n, m);
    NativeBase nb;
    nb.init(n, m, 0);
    u->C = nb.C;
    u->D = nb.D;
    vec zl = nb.D.lowerbound, zu = nb.D.upperbound;
    u->f           = [n](crvec x) { LOG("eval_f"); return c20_f(n, x.data()); };
    u->grad_f      = [n](crvec x, rvec g) { LOG("eval_grad_f"); c20_grad_f(n, x.data(), g.data()); };
    u->g           = [n, m](crvec x, rvec gx) { LOG("eval_g"); c20_g(n, m, x.data(), gx.data()); };
    u->grad_g_prod = [n, m](crvec x, crvec y, rvec o) { LOG("eval_grad_g_prod"); c20_grad_g_prod(n, m, x.data(), y.data(), o.data()); };
    if (fmask & 1) u->grad_gi = [n](crvec x, index_t i, rvec o) { LOG("eval_grad_gi"); c20_grad_gi(n, x.data(), i, o.data()); };
    if (fmask & 2) u->jac_g = [n, m](crvec x, rmat J) { LOG("eval_jac_g"); c20_jac_g(n, m, x.data(), J.size() ? J.data() : nullptr); };
    if (fmask & 4) u->hess_L_prod = [n, m](crvec x, crvec y, real_t s, crvec v, rvec Hv) { LOG("eval_hess_L_prod"); c20_hess_L_prod(n, m, x.data(), y.data(), s, v.data(), Hv.data()); };
    if (fmask & 8) u->hess_L = [n, m](crvec x, crvec y, real_t s, rmat H) { LOG("eval_hess_L"); c20_hess_L(n, m, x.data(), y.data(), s, H.size() ? H.data() : nullptr); };
    if (fmask & 16) u->hess_ψ_prod = [n, m, zl, zu](crvec x, crvec y, crvec Σ, real_t s, crvec v, rvec Hv) { LOG("eval_hess_ψ_prod"); c20_hess_psi_prod(n, m, x.data(), y.data(), Σ.data(), s, zl.data(), zu.data(), v.data(), Hv.data()); };
    if (fmask & 32) u->hess_ψ = [n, m, zl, zu](crvec x, crvec y, crvec Σ, real_t s, rmat H) { LOG("eval_hess_ψ"); c20_hess_psi(n, m, x.data(), y.data(), Σ.data(), s, zl.data(), zu.data(), H.size() ? H.data() : nullptr); };
    auto s = std::make_unique<Session>();
    s->keep.push_back(u);
    auto ref = std::make_shared<RefFun>(u.get());
    s->keep.push_back(ref);
    s->d      = std::make_unique<TEP>(u.get());
    s->r      = std::make_unique<TEP>(ref.get());
    s->create = creator<FP>(u);
    // the independent reference RefFun keeps its own copy of the boxes: it follows the underlying problem
    s->mutate = [u, ref](const Mut &m, int ep) {
        std::string a = apply_mut(*u, m, ep);
        if (a == "ok" && m.what == "C") { ref->C.lowerbound = m.lb; ref->C.upperbound = m.ub; }
        if (a == "ok" && m.what == "D") { ref->D.lowerbound = m.lb; ref->D.upperbound = m.ub; }
        return a;
    };
    return s;
}

std::string classify(const std::function<void()> &f, bool &warned) {
    std::ostringstream err;
    auto *old = std::cerr.rdbuf(err.rdbuf());
    std::string res = "ok";
    try {
        f();
    } catch (const std::invalid_argument &) {
        res = "err:invalid_argument";
    } catch (const alpaqa::dl::invalid_abi_error &) {
        res = "err:abi";
    } catch (const alpaqa::util::dynamic_load_error &e) {
        res = std::string(e.what()).rfind("Unable to load function", 0) == 0 ? "err:missing_symbol" : "err:dlopen";
    } catch (const std::logic_error &e) {
        res = std::string(e.what()).find("did not return any functions") != std::string::npos ? "err:no_functions"
                                                                                               : std::string("err:logic:") + e.what();
    } catch (const std::runtime_error &e) {
        res = std::string(e.what()) == "c20 plug-in exception" ? "err:plugin_exception" : std::string("err:runtime:") + e.what();
    } catch (...) {
        res = "err:unknown";
    }
    std::cerr.rdbuf(old);
    warned = err.str().find("does not provide a function to query the ABI version") != std::string::npos;
    for (auto &c : res)
        if (c == ' ') c = '_';
    return res;
}

/// how often the plug-in's registration function ran during one load attempt: every registration function of
/// the C20 plug-ins increments the exported counter `c20_reg_calls` (read through our own dlopen handle)
struct RegCalls {
    void *h     = nullptr;
    int *cnt    = nullptr;
    int before  = 0;
    RegCalls(const std::string &path, bool usable) {
        if (!usable) return;
        h = dlopen(path.c_str(), RTLD_NOW | RTLD_LOCAL);
        if (h) cnt = reinterpret_cast<int *>(dlsym(h, "c20_reg_calls"));
        if (cnt) before = *cnt;
    }
    std::string str() const { return cnt ? std::to_string(*cnt - before) : std::string("-"); }
    ~RegCalls() { if (h) dlclose(h); }
};

std::string so_path(const std::string &file) {
    if (file == "empty") return "";
    if (file == "missing") return plugin_dir + "/c20_does_not_exist.so";
    return plugin_dir + "/c20_" + file + ".so";
}

std::unique_ptr<Session> new_dl(const std::string &file, const std::string &regfn, c20_params P, std::string &status) {
    using alpaqa::dl::DLProblem;
    auto s      = std::make_unique<Session>();
    auto params = std::make_shared<c20_params>(P);
    s->keep.push_back(params);
    std::shared_ptr<DLProblem> u;
    bool warned = false;
    RegCalls rc(so_path(file), file != "empty" && file != "missing");
    status      = classify([&] {
        u = std::make_shared<DLProblem>(so_path(file), regfn, alpaqa_register_arg_t{params.get(), alpaqa_register_arg_unspecified});
    }, warned);
    if (status != "ok") {
        status += " regcalls=" + rc.str();
        return nullptr;
    }
    status += (warned ? " warned=1" : " warned=0") + std::string(" regcalls=") + rc.str();
    s->keep.push_back(u);
    // our own handle on the plug-in: log + a second instance for the reference path
    void *h = dlopen(so_path(file).c_str(), RTLD_NOW | RTLD_LOCAL);
    s->log_take  = reinterpret_cast<c20_log_take_t>(dlsym(h, "c20_log_take"));
    s->log_names = c20_nlp_names;
    s->fragile   = regfn == "c20_defaultinit";
    auto reg     = reinterpret_cast<alpaqa_problem_register_t (*)(alpaqa_register_arg_t)>(dlsym(h, regfn.c_str()));
    auto rr      = std::make_shared<alpaqa_problem_register_t>(reg(alpaqa_register_arg_t{params.get(), alpaqa_register_arg_unspecified}));
    s->d         = std::make_unique<TEP>(u.get());
    if (!s->fragile) {
        auto ref = std::make_shared<RefDL>(rr->functions, rr->instance, "c20_" + file + ".so");
        s->keep.push_back(ref);
        s->r = std::make_unique<TEP>(ref.get());
    }
    s->cleanup = [rr, h] {
        if (rr->cleanup && rr->instance) rr->cleanup(rr->instance);
        dlclose(h);
    };
    s->create = creator<DLProblem>(u);
    s->mutate = [u](const Mut &m, int ep) { return apply_mut(*u, m, ep); };
    s->take_log();
    return s;
}

// ---- OCP
constexpr uint32_t ALLO = (1u << OB_COUNT) - 1;
template <uint32_t HAS, uint32_t PROV>
std::unique_ptr<Session> ocp_session(uint32_t pv, length_t nh, length_t nc, std::string &status) {
    using U = OP<HAS, PROV>;
    auto u  = std::make_shared<U>();
    u->pv = pv; u->nh = nh; u->nc = nc;
    auto s = std::make_unique<Session>();
    s->ocp = true;
    s->keep.push_back(u);
    try {
        s->od = std::make_unique<TEO>(u.get());
    } catch (const std::runtime_error &e) {
        std::string w = e.what();
        auto p = w.find('\'');
        status = "err:missing:" + (p == std::string::npos ? w : w.substr(p + 1, w.rfind('\'') - p - 1));
        return nullptr;
    }
    s->drw    = s->od->get_R_work_size();
    s->dsw    = s->od->get_S_work_size();
    s->create    = creator<U>(u);
    s->mutate    = [u](const Mut &m, int ep) { return apply_mut(*u, m, ep); };
    s->has_epoch = true;
    status       = "ok";
    g_log.clear();
    return s;
}
constexpr uint32_t HH = (1u << O_H) | (1u << O_H_N);
#define OCP_LIST(X)                                                                                                     \
    X(0, HH, 0u)                                                                                                        \
    X(1, ALLO | HH, 0u)                                                                                                 \
    X(2, ALLO | HH, ALLO | HH)                                                                                          \
    X(3, HH | (1u << O_GET_D) | (1u << O_CONSTR) | (1u << O_GCP) | (1u << O_GN), (1u << O_GN))                          \
    X(4, HH | (1u << O_ADD_Q_N) | (1u << O_R_PROD) | (1u << O_R_WORK) | (1u << O_CONSTR_N) | (1u << O_GET_D_N), (1u << O_R_PROD)) \
    X(5, HH | (ALLO & ~((1u << O_S_PROD) | (1u << O_GN_N) | (1u << O_GET_D_N))), (ALLO | (1u << O_H)) & ~((1u << O_S_PROD) | (1u << O_CONSTR)))
// problems without (part of) the output mapping: only when the wrapper can wrap them
#define OCP_LIST_H(X)                                                                                                   \
    X(6, 0u, 0u)                                                                                                        \
    X(7, ALLO, ALLO)                                                                                                    \
    X(8, ALLO | (1u << O_H), 0u)                                                                                        \
    X(9, (1u << O_H_N) | (1u << O_GET_D) | (1u << O_CONSTR) | (1u << O_GCP), (1u << O_H_N))

#ifdef C20_THOROUGH
#define OCP_LIST_H2(X)                                                                                                  \
    X(10, (ALLO | HH) & ~(1u << 0), 0u)                                                                        \
    X(11, (ALLO | HH) & ~(1u << 1), 0u)                                                                        \
    X(12, (ALLO | HH) & ~(1u << 2), 0u)                                                                        \
    X(13, (ALLO | HH) & ~(1u << 3), 0u)                                                                        \
    X(14, (ALLO | HH) & ~(1u << 4), 0u)                                                                        \
    X(15, (ALLO | HH) & ~(1u << 5), 0u)                                                                        \
    X(16, (ALLO | HH) & ~(1u << 6), 0u)                                                                        \
    X(17, (ALLO | HH) & ~(1u << 7), 0u)                                                                        \
    X(18, (ALLO | HH) & ~(1u << 8), 0u)                                                                        \
    X(19, (ALLO | HH) & ~(1u << 9), 0u)                                                                        \
    X(20, (ALLO | HH) & ~(1u << 10), 0u)                                                                        \
    X(21, (ALLO | HH) & ~(1u << 11), 0u)                                                                        \
    X(22, (ALLO | HH) & ~(1u << 12), 0u)                                                                        \
    X(23, (ALLO | HH) & ~(1u << 13), 0u)                                                                        \
    X(24, (ALLO | HH) & ~(1u << 14), 0u)                                                                        \
    X(25, (1u << 0), 0u)                                                                                       \
    X(26, (1u << 1), 0u)                                                                                       \
    X(27, (1u << 2), 0u)                                                                                       \
    X(28, (1u << 3), 0u)                                                                                       \
    X(29, (1u << 4), 0u)                                                                                       \
    X(30, (1u << 5), 0u)                                                                                       \
    X(31, (1u << 6), 0u)                                                                                       \
    X(32, (1u << 7), 0u)                                                                                       \
    X(33, (1u << 8), 0u)                                                                                       \
    X(34, (1u << 9), 0u)                                                                                       \
    X(35, (1u << 10), 0u)                                                                                       \
    X(36, (1u << 11), 0u)                                                                                       \
    X(37, (1u << 12), 0u)                                                                                       \
    X(38, (1u << 13), 0u)                                                                                       \
    X(39, (1u << 14), 0u)
#else
#define OCP_LIST_H2(X)
#endif

template <bool WithH>
std::unique_ptr<Session> new_ocp(int idx, uint32_t has, uint32_t prov, uint32_t pv, length_t nh, length_t nc, std::string &status) {
    status = "bad-index";
    switch (idx) {
#define X(i, H, P) case i: return ((H) == has && (P) == prov) ? ocp_session<(H), (P)>(pv, nh, nc, status) : nullptr;
        OCP_LIST(X)
#undef X
        default: break;
    }
    if constexpr (WithH) {
        switch (idx) {
#define X(i, H, P) case i: return ((H) == has && (P) == prov) ? ocp_session<(H), (P)>(pv, nh, nc, status) : nullptr;
            OCP_LIST_H(X)
            OCP_LIST_H2(X)
#undef X
            default: break;
        }
    }
    return nullptr;
}

std::unique_ptr<Session> new_dlocp(const std::string &file, const std::string &regfn, c20_params P, std::string &status) {
    using alpaqa::dl::DLControlProblem;
    auto s      = std::make_unique<Session>();
    s->ocp      = true;
    auto params = std::make_shared<c20_params>(P);
    s->keep.push_back(params);
    std::shared_ptr<DLControlProblem> u;
    bool warned = false;
    RegCalls rc(so_path(file), file != "empty" && file != "missing");
    status      = classify([&] {
        u = std::make_shared<DLControlProblem>(so_path(file), regfn, alpaqa_register_arg_t{params.get(), alpaqa_register_arg_unspecified});
    }, warned);
    const std::string regcalls = " regcalls=" + rc.str();
    if (status != "ok") {
        status += regcalls;
        return nullptr;
    }
    s->keep.push_back(u);
    void *h      = dlopen(so_path(file).c_str(), RTLD_NOW | RTLD_LOCAL);
    s->log_take  = reinterpret_cast<c20_log_take_t>(dlsym(h, "c20_log_take"));
    s->log_names = c20_ocp_names;
    auto reg     = reinterpret_cast<alpaqa_control_problem_register_t (*)(alpaqa_register_arg_t)>(dlsym(h, regfn.c_str()));
    auto rr      = std::make_shared<alpaqa_control_problem_register_t>(reg(alpaqa_register_arg_t{params.get(), alpaqa_register_arg_unspecified}));
    s->cleanup   = [rr, h] {
        if (rr->cleanup && rr->instance) rr->cleanup(rr->instance);
        dlclose(h);
    };
    try {
        s->od = std::make_unique<TEO>(u.get());
    } catch (const std::runtime_error &e) {
        std::string w = e.what();
        auto p = w.find('\'');
        status = "err:missing:" + (p == std::string::npos ? w : w.substr(p + 1, w.rfind('\'') - p - 1)) + regcalls;
        return nullptr;
    }
    status += (warned ? " warned=1" : " warned=0") + regcalls;
    auto ref = std::make_shared<RefDLO>(RefDLO{rr->functions, rr->instance, {}, {}});
    ref->init_boxes();
    s->keep.push_back(ref);
    // a plug-in that omits eval_h / eval_h_N: every call is tried in a child first (a loader without
    // provides_eval_h would jump through the null table member); with nh > 0 the vtable constructor rejects
    // the loader above and this reference alike
    s->fragile = (P.flags & (C20O_FLAG_NO_H | C20O_FLAG_NO_H_N)) != 0;
    try {
        s->orf = std::make_unique<TEO>(ref.get());
    } catch (const std::runtime_error &) {
        s->orf.reset();
    }
    s->drw = s->od->get_R_work_size(); s->dsw = s->od->get_S_work_size();
    if (s->orf) { s->rrw = s->orf->get_R_work_size(); s->rsw = s->orf->get_S_work_size(); }
    s->create = creator<DLControlProblem>(u);
    s->mutate = [u](const Mut &m, int ep) { return apply_mut(*u, m, ep); };
    s->take_log();
    return s;
}

/// one evaluation on one type-erased view; crashes of the real code are confined to a child
struct Out {
    std::string st, vals, log;
};
Out run_call(Session &s, const TEP *te, const TEO *teo, const std::string &fn, const Args &A, bool risky, length_t rw,
             length_t sw) {
    auto doit = [&]() -> Res { return teo ? call_ocp(*teo, fn, A, rw, sw) : call_nlp(*te, fn, A); };
    Out o;
    s.take_log();
    if (risky) {
        std::string c = in_child([&] { (void)doit(); });
        if (c.rfind("signal", 0) == 0) {
            o.st = "crash"; o.vals = c; o.log = "-";
            s.take_log();
            return o;
        }
    }
    Res r  = doit();
    o.st   = r.st;
    o.vals = r.vals.empty() ? "-" : r.vals;
    o.log  = join(s.take_log());
    return o;
}

} // namespace

int main(int argc, char **argv) {
    plugin_dir = argc > 1 ? argv[1] : ".";
    std::unique_ptr<Session> S;
    std::string line;
    while (std::getline(std::cin, line)) {
        vp::Toks t(line);
        std::string op = t.tok();
        try {
            if (op == "list") {
                std::ostringstream o;
                o << "native";
#define X(i, H, P) o << ' ' << i << ':' << uint32_t(H) << ':' << uint32_t(P);
                NATIVE_LIST(X)
                NATIVE_LIST2(X)
                NATIVE_LIST3(X)
                o << " ocp";
                OCP_LIST(X)
                if (eval_h_optional) {
                    OCP_LIST_H(X)
                    OCP_LIST_H2(X)
                }
#undef X
                std::cout << o.str() << '\n';
            } else if (op == "new") {
                S.reset();
                g_log.clear();
                std::string kind = t.tok(), status = "ok";
                if (kind == "native") {
                    int idx = (int)t.nat(); uint32_t has = (uint32_t)t.nat(), prov = (uint32_t)t.nat(), pv = (uint32_t)t.nat(); long n = t.nat(), m = t.nat();
                    S = new_native(idx, has, prov, pv, n, m);
                    if (!S) status = "bad-index";
                } else if (kind == "functional") {
                    uint32_t fm = (uint32_t)t.nat(); long n = t.nat(), m = t.nat();
                    S = new_functional(fm, n, m);
                } else if (kind == "dl" || kind == "dlocp") {
                    std::string file = t.tok(), regfn = t.tok();
                    c20_params P;
                    P.mask = (unsigned long)t.nat(); P.n = t.nat(); P.m = t.nat(); P.flags = (int)t.nat();
                    S = kind == "dl" ? new_dl(file, regfn, P, status) : new_dlocp(file, regfn, P, status);
                } else if (kind == "ocp") {
                    int idx = (int)t.nat(); uint32_t has = (uint32_t)t.nat(), prov = (uint32_t)t.nat(), pv = (uint32_t)t.nat(); long nh = t.nat(), nc = t.nat();
                    S = new_ocp<eval_h_optional>(idx, has, prov, pv, nh, nc, status);
                } else {
                    status = "bad-kind";
                }
                std::cout << status << '\n';
            } else if (!S) {
                std::cout << "no-session\n";
            } else if (op == "create" || op == "createref") {
                S->ws.push_back(S->create(op == "createref"));
                S->take_log();
                std::cout << "created " << S->ws.size() - 1 << '\n';
            } else if (op == "mutate" || op == "mutatew") {
                // mutate <what> …  : change the underlying problem;  mutatew <w> <what> … : change wrapper w's own copy
                size_t w = 0;
                if (op == "mutatew") w = (size_t)t.nat();
                Mut m;
                m.what = t.tok();
                if (m.what == "const") m.v = t.flt();
                else { m.lb = t.vec(); m.ub = t.vec(); }
                if (op == "mutatew" && w >= S->ws.size()) { std::cout << "bad-wrapper\n"; continue; }
                std::string a;
                if (op == "mutate") a = S->mutate ? S->mutate(m, S->epoch_ctr + 1) : std::string("unsupported");
                else a = S->ws[w].mutate_own ? S->ws[w].mutate_own(m, S->epoch_ctr + 1) : std::string("const-reference");
                if (a == "ok") ++S->epoch_ctr;
                S->take_log();
                std::cout << a << '\n';
            } else if (op == "copy") {
                size_t w = (size_t)t.nat();
                if (w >= S->ws.size()) { std::cout << "bad-wrapper\n"; continue; }
                S->ws.push_back(S->ws[w].copy());
                S->take_log();
                std::cout << "created " << S->ws.size() - 1 << '\n';
            } else if (op == "decouple") {
                size_t w = (size_t)t.nat();
                if (w >= S->ws.size()) { std::cout << "bad-wrapper\n"; continue; }
                if (S->ws[w].is_null()) {
                    auto &h = S->ws[w];
                    std::string c = in_child([&] { h.decouple(); });
                    std::cout << (c.rfind("signal", 0) == 0 ? "crash ## " : "ok ## ") << c << '\n';
                    if (c.rfind("signal", 0) != 0) h.decouple();
                } else {
                    S->ws[w].decouple();
                    std::cout << "ok\n";
                }
            } else if (op == "reset") {
                size_t w = (size_t)t.nat();
                if (w >= S->ws.size()) { std::cout << "bad-wrapper\n"; continue; }
                S->ws[w].reset();
                std::cout << "ok\n";
            } else if (op == "cnt") {
                size_t w = (size_t)t.nat();
                if (w >= S->ws.size()) { std::cout << "bad-wrapper\n"; continue; }
                std::cout << S->ws[w].cnt() << '\n';
            } else if (op == "prov") {
                size_t w = (size_t)t.nat();
                if (w >= S->ws.size()) { std::cout << "bad-wrapper\n"; continue; }
                if (S->ocp)
                    std::cout << prov_ocp(*S->ws[w].teo) << " ## " << prov_ocp(*S->od) << (S->orf ? " " + prov_ocp(*S->orf) : "") << '\n';
                else
                    std::cout << prov_nlp(*S->ws[w].te) << " ## " << prov_nlp(*S->d) << (S->r ? " " + prov_nlp(*S->r) : "") << '\n';
            } else if (op == "call") {
                size_t w = (size_t)t.nat();
                std::string fn = t.tok();
                Args A;
                A.a = t.flt(); A.i = t.nat();
                A.x = t.vec(); A.y = t.vec(); A.S = t.vec(); A.v = t.vec();
                if (S->ocp) { A.e5 = t.vec(); A.zf = t.vec(); }
                if (w >= S->ws.size()) { std::cout << "bad-wrapper\n"; continue; }
                auto &h = S->ws[w];
                bool riskyW = h.is_null() || S->fragile || (S->ocp && ocp_null_call(*h.teo, fn));
                bool riskyD = S->fragile || (S->ocp && ocp_null_call(*h.dteo, fn));
                g_eps.clear();
                Out W = run_call(*S, h.te.get(), h.teo.get(), fn, A, riskyW, h.rw, h.sw);
                // stamp(s) of the problem object(s) this evaluation ran on (native classes only)
                std::string ep = "-";
                if (S->has_epoch && !g_eps.empty()) {
                    std::sort(g_eps.begin(), g_eps.end());
                    g_eps.erase(std::unique(g_eps.begin(), g_eps.end()), g_eps.end());
                    ep.clear();
                    for (size_t k = 0; k < g_eps.size(); ++k) ep += (k ? "/" : "") + std::to_string(g_eps[k]);
                }
                g_eps.clear();
                std::string cnt = h.cnt();
                // D: the same function on this handle's reference object (see make_handle)
                Out D = run_call(*S, h.dte.get(), h.dteo.get(), fn, A, riskyD, h.drw, h.dsw);
                std::cout << W.st << " log=" << W.log << " cnt=" << cnt << " ep=" << ep;
                // the loader's own projections: the values belong to what the Lean model predicts
                if (S->orf && (fn == "eval_proj_diff_g" || fn == "eval_proj_multipliers")) std::cout << " val=" << W.vals;
                std::cout << " ## W " << W.vals << " | D " << D.st << ' ' << D.log << ' ' << D.vals;
                if (S->r || S->orf) {
                    // U: the underlying problem itself (the loader / function-object class), R: the independent reference
                    bool riskyU = S->fragile || (S->ocp && ocp_null_call(*S->od, fn));
                    Out U = run_call(*S, S->d.get(), S->od.get(), fn, A, riskyU, S->drw, S->dsw);
                    std::cout << " | U " << U.st << ' ' << U.log << ' ' << U.vals;
                    bool riskyR = S->ocp && ocp_null_call(*S->orf, fn);
                    Out R = run_call(*S, S->r.get(), S->orf.get(), fn, A, riskyR, S->rrw, S->rsw);
                    std::cout << " | R " << R.st << ' ' << R.log << ' ' << R.vals;
                }
                g_eps.clear();
                std::cout << '\n';
            } else {
                std::cout << "bad-op\n";
            }
        } catch (const std::exception &e) {
            std::cout << "harness-exception:" << e.what() << '\n';
        }
    }
}
