// C04: a C-ABI plug-in (alpaqa/dl/dl-problem.h) whose function table is chosen at registration
// time from the bitmask in the `c04::Data` passed as user_param.  Built into a shared object by
// checks/c04.py and loaded through alpaqa::dl::DLProblem by harness/c04.cpp.
#include <alpaqa/dl/dl-problem.h>
#include "c04_kernels.hpp"

using namespace c04;

namespace {
struct Inst {
    const Data *d;
    alpaqa_problem_functions_t funcs;
};
const Data &D(void *i) { return *static_cast<Inst *>(i)->d; }

double p_f(void *i, const double *x) { tag(D(i), "f"); return k_f(D(i), x); }
void p_grad_f(void *i, const double *x, double *o) { tag(D(i), "grad_f"); k_grad_f(D(i), x, o); }
void p_g(void *i, const double *x, double *o) { tag(D(i), "g"); k_g(D(i), x, o); }
void p_grad_g_prod(void *i, const double *x, const double *y, double *o) {
    tag(D(i), "grad_g_prod"); k_grad_g_prod(D(i), x, y, o);
}
void p_proj_diff_g(void *i, const double *z, double *e) {
    tag(D(i), "proj_diff_g");
    for (long j = 0; j < D(i).m; ++j)
        e[j] = k_pd1(z[j], D(i).lb[j], D(i).ub[j]);
}
void p_proj_multipliers(void *, double *, double) {}
void p_init_D(void *i, double *lb, double *ub) {
    for (long j = 0; j < D(i).m; ++j) { lb[j] = D(i).lb[j]; ub[j] = D(i).ub[j]; }
}
long nS(void *i) { return D(i).mask >> 16 ? 1 : D(i).m; } // bit 16: Σ is a single shared factor

double p_f_grad_f(void *i, const double *x, double *o) {
    tag(D(i), "f_grad_f"); k_grad_f(D(i), x, o); return k_f(D(i), x);
}
double p_f_g(void *i, const double *x, double *o) { tag(D(i), "f_g"); k_g(D(i), x, o); return k_f(D(i), x); }
void p_gfggp(void *i, const double *x, const double *y, double *a, double *b) {
    tag(D(i), "grad_f_grad_g_prod"); k_grad_f(D(i), x, a); k_grad_g_prod(D(i), x, y, b);
}
void p_grad_L(void *i, const double *x, const double *y, double *o, double *wn) {
    tag(D(i), "grad_L"); k_grad_L(D(i), x, y, o);
    work_vec(D(i), "grad_L", "work_n", wn, -1, D(i).n);
}
double p_psi(void *i, const double *x, const double *y, const double *S, const double *zl,
             const double *zu, double *yh) {
    tag(D(i), "psi"); return k_psi(D(i), x, y, S, nS(i), zl, zu, yh);
}
void p_grad_psi(void *i, const double *x, const double *y, const double *S, const double *zl,
                const double *zu, double *o, double *wn, double *wm) {
    tag(D(i), "grad_psi"); k_grad_psi(D(i), x, y, S, nS(i), zl, zu, o);
    work_vec(D(i), "grad_psi", "work_n", wn, -1, D(i).n);
    work_vec(D(i), "grad_psi", "work_m", wm, -1, D(i).m);
}
double p_psi_grad_psi(void *i, const double *x, const double *y, const double *S, const double *zl,
                      const double *zu, double *o, double *wn, double *wm) {
    tag(D(i), "psi_grad_psi");
    std::vector<double> yh(D(i).m);
    double p = k_psi(D(i), x, y, S, nS(i), zl, zu, yh.data());
    k_grad_psi(D(i), x, y, S, nS(i), zl, zu, o);
    work_vec(D(i), "psi_grad_psi", "work_n", wn, -1, D(i).n);
    work_vec(D(i), "psi_grad_psi", "work_m", wm, -1, D(i).m);
    return p;
}
void p_hess_L_prod(void *i, const double *x, const double *y, double s, const double *v, double *o) {
    tag(D(i), "hess_L_prod"); k_hess_L_prod(D(i), x, y, s, v, o);
}
void p_hess_L(void *i, const double *x, const double *y, double s, double *o) {
    tag(D(i), "hess_L"); k_hess_L(D(i), x, y, s, o);
}
void p_hess_psi_prod(void *i, const double *x, const double *y, const double *S, double s,
                     const double *zl, const double *zu, const double *v, double *o) {
    tag(D(i), "hess_psi_prod"); k_hess_psi_prod(D(i), x, y, S, nS(i), s, zl, zu, v, o);
}
void p_hess_psi(void *i, const double *x, const double *y, const double *S, double s, const double *zl,
                const double *zu, double *o) {
    tag(D(i), "hess_psi"); k_hess_psi(D(i), x, y, S, nS(i), s, zl, zu, o);
}
} // namespace

extern "C" ALPAQA_DL_PROBLEM_EXPORT alpaqa_dl_abi_version_t c04_register_version(void) {
    return ALPAQA_DL_ABI_VERSION;
}

extern "C" ALPAQA_DL_PROBLEM_EXPORT alpaqa_problem_register_t c04_register(alpaqa_register_arg_t arg) {
    auto *inst = new Inst{static_cast<const Data *>(arg.data), {}};
    auto &f    = inst->funcs;
    unsigned m = inst->d->mask;
    f.n = inst->d->n;
    f.m = inst->d->m;
    f.name                  = "c04-plugin";
    f.eval_f                = p_f;
    f.eval_grad_f           = p_grad_f;
    f.eval_g                = p_g;
    f.eval_grad_g_prod      = p_grad_g_prod;
    f.eval_proj_diff_g      = p_proj_diff_g;
    f.eval_proj_multipliers = p_proj_multipliers;
    f.initialize_box_D      = p_init_D;
    if (m & B_f_grad_f) f.eval_f_grad_f = p_f_grad_f;
    if (m & B_f_g) f.eval_f_g = p_f_g;
    if (m & B_gfggp) f.eval_grad_f_grad_g_prod = p_gfggp;
    if (m & B_grad_L) f.eval_grad_L = p_grad_L;
    if (m & B_psi) f.eval_ψ = p_psi;
    if (m & B_grad_psi) f.eval_grad_ψ = p_grad_psi;
    if (m & B_psi_grad_psi) f.eval_ψ_grad_ψ = p_psi_grad_psi;
    if (m & B_hess_L_prod) f.eval_hess_L_prod = p_hess_L_prod;
    if (m & B_hess_psi_prod) f.eval_hess_ψ_prod = p_hess_psi_prod;
    if (m & B_hess_L) f.eval_hess_L = p_hess_L;
    if (m & B_hess_psi) f.eval_hess_ψ = p_hess_psi;
    alpaqa_problem_register_t r;
    r.instance  = inst;
    r.functions = &inst->funcs;
    r.cleanup   = [](void *p) { delete static_cast<Inst *>(p); };
    return r;
}
