// Generic driver for PANOC-like inner solvers (PANOC, ZeroFPR): parameters from the op line,
// trace recording, stop injection, output formatting.
#pragma once
#include "solver_common.hpp"
#include <alpaqa/accelerators/lbfgs.hpp>
#include <alpaqa/inner/directions/panoc/anderson.hpp>
#include <alpaqa/inner/directions/panoc/lbfgs.hpp>
#include <alpaqa/inner/directions/panoc/noop.hpp>
#include <alpaqa/inner/directions/panoc/structured-lbfgs.hpp>
#include <alpaqa/inner/inner-solve-options.hpp>
#include <alpaqa/inner/internal/panoc-stop-crit.hpp>
#include <chrono>

namespace vs {

template <class Params>
void set_common_params(Params &p, const KV &kv) {
    p.Lipschitz.L_0       = kv.flt("L0", 0);
    p.Lipschitz.ε         = kv.flt("lipeps", 1e-6);
    p.Lipschitz.δ         = kv.flt("lipdelta", 1e-12);
    p.Lipschitz.Lγ_factor = kv.flt("Lgf", 0.95);
    p.max_iter            = (unsigned)kv.nat("maxiter", 100);
    p.L_min               = kv.flt("Lmin", 1e-5);
    p.L_max               = kv.flt("Lmax", 1e20);
    p.stop_crit           = static_cast<alpaqa::PANOCStopCrit>(kv.nat("crit", 0));
    p.max_no_progress     = (unsigned)kv.nat("maxnp", 10);
    p.quadratic_upperbound_tolerance_factor = kv.flt("qubtol", 10 * 2.220446049250313e-16);
    p.max_time = kv.nat("oot", 0) ? std::chrono::nanoseconds(0) : std::chrono::nanoseconds(std::chrono::hours(10));
}

template <class CB>
std::string fmt_cb_panoc(const CB &i, bool have_gh, bool q_valid) {
    std::string s = " ; CB " + std::to_string(i.k) + ' ' + status_name(i.status) + ' ' + vp::fmtv(i.x) + ' ' +
                    vp::fmtv(i.p) + ' ' + vp::f2h(i.norm_sq_p) + ' ' + vp::fmtv(i.x̂) + ' ' + vp::fmtv(i.ŷ) +
                    ' ' + vp::f2h(i.φγ) + ' ' + vp::f2h(i.ψ) + ' ' + vp::fmtv(i.grad_ψ) + ' ' +
                    vp::f2h(i.ψ_hat) + ' ' + (have_gh ? "1 " + vp::fmtv(i.grad_ψ_hat) : std::string("0 0")) +
                    ' ' + (q_valid ? vp::fmtv(i.q) : std::string("0")) + ' ' + vp::f2h(i.L) + ' ' + vp::f2h(i.γ) + ' ' + vp::f2h(i.τ) + ' ' +
                    vp::f2h(i.ε);
    return s;
}

// Run `Solver<TraceDirection<Dir>>` (or with AdvDirection) and format the result.
template <template <class> class SolverT, class Dir, class MakeDir, class SetParams>
std::string run_with_direction(const KV &kv, MakeDir make_dir, SetParams set_params) {
    using Solver = SolverT<Dir>;
    PolyProblem poly{kv};
    Trace tr;
    tr.stop_at = kv.nat("stopat", 0);
    tr.record  = kv.nat("trace", 1) != 0;
    TraceProblem tp{&poly, &tr};
    tp.nan_at     = kv.nat("nanat", 0);
    tp.wm_scratch = kv.nat("wmscratch", 0) != 0;
    alpaqa::TypeErasedProblem<config_t> te{&tp};
    typename Solver::Params params;
    set_common_params(params, kv);
    set_params(params);
    Solver solver{params, make_dir(&tr)};
    tr.do_stop  = [&] { solver.stop(); };
    long stopcb = kv.nat("stopcb", 0), ncb = 0;
    std::string cbs;
    solver.set_progress_callback([&](const typename Solver::ProgressInfo &i) {
        tr.begin("cb");
        ++ncb;
        cbs += fmt_cb_panoc(i, i.grad_ψ_hat.size() > 0, tr.applied);
        if (stopcb && ncb == stopcb)
            tr.fire_stop();
    });
    vec x = kv.vecv("x0"), y = kv.vecv("y0"), Σ = kv.vecv("Sig"), errz(poly.m);
    errz.setConstant(-12345.0);
    vec x_in = x, y_in = y;
    alpaqa::InnerSolveOptions<config_t> opts;
    opts.always_overwrite_results = kv.nat("overwrite", 1) != 0;
    opts.tolerance                = kv.flt("tol", 1e-8);
    opts.check                    = false;
    std::string out;
    try {
        auto s = solver(te, opts, x, y, Σ, errz);
        out = "S " + status_name(s.status) + ' ' + std::to_string(s.iterations) + ' ' + vp::f2h(s.ε) + ' ' +
              std::to_string(s.linesearch_failures) + ' ' + std::to_string(s.linesearch_backtracks) + ' ' +
              std::to_string(s.stepsize_backtracks) + ' ' + std::to_string(s.lbfgs_failures) + ' ' +
              std::to_string(s.lbfgs_rejected) + ' ' + std::to_string(s.τ_1_accepted) + ' ' +
              std::to_string(s.count_τ) + ' ' + vp::f2h(s.sum_τ) + ' ' + vp::f2h(s.final_γ) + ' ' +
              vp::f2h(s.final_ψ) + ' ' + vp::f2h(s.final_h) + ' ' + vp::f2h(s.final_φγ);
    } catch (std::exception &e) {
        out = std::string("S exception");
    }
    bool untouched = std::memcmp(x.data(), x_in.data(), sizeof(real_t) * x.size()) == 0 &&
                     std::memcmp(y.data(), y_in.data(), sizeof(real_t) * y.size()) == 0;
    out += " ; O " + std::string(untouched ? "1 " : "0 ") + vp::fmtv(x) + ' ' + vp::fmtv(y) + ' ' + vp::fmtv(errz);
    out += " ; T " + std::to_string(tr.ticks);
    out += cbs;
    out += tr.ev;
    out += tr.stop_ev;
    return out;
}

template <template <class> class SolverT, class SetParams>
std::string dispatch_direction(const KV &kv, SetParams set_params) {
    std::string d = kv.str("dir", "lbfgs");
    unsigned mem  = (unsigned)kv.nat("mem", 5);
    if (d == "lbfgs") {
        using D = alpaqa::LBFGSDirection<config_t>;
        return run_with_direction<SolverT, TraceDirection<D>>(
            kv, [&](Trace *tr) { typename D::AcceleratorParams ap; ap.memory = mem;
                                 return TraceDirection<D>{D{ap}, tr}; }, set_params);
    } else if (d == "slbfgs") {
        using D = alpaqa::StructuredLBFGSDirection<config_t>;
        return run_with_direction<SolverT, TraceDirection<D>>(
            kv, [&](Trace *tr) { typename D::AcceleratorParams ap; ap.memory = mem;
                                 typename D::DirectionParams dp;
                                 dp.hessian_vec_factor = kv.flt("hvf", 0);
                                 return TraceDirection<D>{D{ap, dp}, tr}; }, set_params);
    } else if (d == "anderson") {
        using D = alpaqa::AndersonDirection<config_t>;
        return run_with_direction<SolverT, TraceDirection<D>>(
            kv, [&](Trace *tr) { typename D::AcceleratorParams ap; ap.memory = mem;
                                 return TraceDirection<D>{D{ap}, tr}; }, set_params);
    } else if (d == "noop") {
        using D = alpaqa::NoopDirection<config_t>;
        return run_with_direction<SolverT, TraceDirection<D>>(
            kv, [&](Trace *tr) { return TraceDirection<D>{D{}, tr}; }, set_params);
    } else if (d == "adv") {
        using D = AdvDirection;
        return run_with_direction<SolverT, TraceDirection<D>>(
            kv, [&](Trace *tr) { return TraceDirection<D>{D{(uint64_t)kv.nat("advseed", 1),
                                                            kv.nat("advinit", 0) != 0}, tr}; }, set_params);
    }
    return "bad-direction";
}

} // namespace vs
