// C14 harness: runs alpaqa's real sparsity converters on op lines from stdin.
//
// op line:   cv|cw <to> <req> <source>
//   cv = SparsityConverter<From, To> directly, cw = through SparsityConverter<Sparsity<Conf>, To>
//   <to>     : D | C<w> | O<w>            w ∈ {i,l,q} = int, long, long long
//   <req>    : -  (no request) | <int>    (COO: first_index, CSC: order code)
//   <source> : D rows cols sym
//            | C<w> rows cols sym order n_outer outer… n_inner inner…
//            | O<w> rows cols sym order first_index n_row row… n_col col…
//   sv|sw = the same with THREE convert_values calls on the one converter object (different value arrays)
// output:    E1 <exc>                                  (constructor threw)
//          | ok <pattern> <block> [| <block> | <block>]
//   <block> : E2 <exc>                                 (convert_values threw)
//           | vals <n_src> <n> v1 … vn                 (value i of the source in call k = base_k + i+1,
//                                                       base = 0, 100, 50; the output buffer is pre-filled
//                                                       with the sentinel −9, −10, −11: 0 = zeroed by the
//                                                       converter, sentinel = left untouched)
//   <pattern> in the same syntax as <source>.
// The generator only produces memory-safe inputs (indices in range for conversions to dense,
// well-formed outer pointers, equal index-vector lengths); everything else is allowed.
#include "proto.hpp"
#include <alpaqa/config/config.hpp>
#include <alpaqa/problem/sparsity-conversions.hpp>
#include <alpaqa/problem/sparsity.hpp>
#include <stdexcept>
#include <variant>

USING_ALPAQA_CONFIG(alpaqa::DefaultConfig);
namespace sp = alpaqa::sparsity;

template <class I>
constexpr char width_letter() {
    if constexpr (std::is_same_v<I, int>)
        return 'i';
    else if constexpr (std::is_same_v<I, long>)
        return 'l';
    else
        return 'q';
}

// ---- sources: own the index storage the sparsity structs refer to
struct DenseSrc {
    sp::Dense<config_t> s;
};
template <class I>
struct CscSrc {
    Eigen::VectorX<I> inner, outer;
    length_t rows, cols;
    int sym, order;
    sp::SparseCSC<config_t, I> get() const {
        using S = sp::SparseCSC<config_t, I>;
        return {.rows      = rows,
                .cols      = cols,
                .symmetry  = static_cast<sp::Symmetry>(sym),
                .inner_idx = inner,
                .outer_ptr = outer,
                .order     = static_cast<typename S::Order>(order)};
    }
};
template <class I>
struct CooSrc {
    Eigen::VectorX<I> row, col;
    length_t rows, cols;
    int sym, order;
    long long first_index;
    sp::SparseCOO<config_t, I> get() const {
        using S = sp::SparseCOO<config_t, I>;
        return {.rows        = rows,
                .cols        = cols,
                .symmetry    = static_cast<sp::Symmetry>(sym),
                .row_indices = row,
                .col_indices = col,
                .order       = static_cast<typename S::Order>(order),
                .first_index = static_cast<I>(first_index)};
    }
};

template <class I>
Eigen::VectorX<I> read_ivec(vp::Toks &t) {
    long n = t.nat();
    Eigen::VectorX<I> v(n);
    for (long i = 0; i < n; ++i)
        v(i) = static_cast<I>(std::stoll(t.tok()));
    return v;
}

// ---- printing
template <class V>
void print_ivec(std::ostream &os, const V &v) {
    os << ' ' << v.size();
    for (Eigen::Index i = 0; i < v.size(); ++i)
        os << ' ' << static_cast<long long>(v(i));
}
void print_pattern(std::ostream &os, const sp::Dense<config_t> &d) {
    os << "D " << d.rows << ' ' << d.cols << ' ' << static_cast<int>(d.symmetry);
}
template <class I>
void print_pattern(std::ostream &os, const sp::SparseCSC<config_t, I> &s) {
    os << 'C' << width_letter<I>() << ' ' << s.rows << ' ' << s.cols << ' '
       << static_cast<int>(s.symmetry) << ' ' << static_cast<int>(s.order);
    print_ivec(os, s.outer_ptr);
    print_ivec(os, s.inner_idx);
}
template <class I>
void print_pattern(std::ostream &os, const sp::SparseCOO<config_t, I> &s) {
    os << 'O' << width_letter<I>() << ' ' << s.rows << ' ' << s.cols << ' '
       << static_cast<int>(s.symmetry) << ' ' << static_cast<int>(s.order) << ' '
       << static_cast<long long>(s.first_index);
    print_ivec(os, s.row_indices);
    print_ivec(os, s.col_indices);
}
length_t value_count(const sp::Dense<config_t> &d) { return d.rows * d.cols; }
template <class S>
length_t value_count(const S &s) {
    return s.nnz();
}

const char *exc_name(const std::exception &e) {
    if (dynamic_cast<const std::invalid_argument *>(&e))
        return "invalid_argument";
    if (dynamic_cast<const std::runtime_error *>(&e))
        return "runtime_error";
    if (dynamic_cast<const std::logic_error *>(&e))
        return "logic_error";
    return "other";
}

// value of source slot i in call k of a sequence, and what the output buffer holds before the call
static const long long kBase[3]     = {0, 100, 50};
static const long long kSentinel[3] = {-9, -10, -11};

template <class Conv, class To>
void emit(std::ostream &os, const Conv &conv, int ncalls) {
    const To &res = conv.get_sparsity();
    os << "ok ";
    print_pattern(os, res);
    length_t n = value_count(res);
    // ONE converter object (its `work` vector and permutation are reused), ncalls value conversions with
    // different value arrays.  The output buffer is pre-filled with a sentinel that is neither zero nor a
    // source value: a cell the converter leaves untouched prints as the sentinel, a cell it zeroes as 0.
    for (int k = 0; k < ncalls; ++k) {
        vec vals   = vec::Constant(n, static_cast<real_t>(kSentinel[k]));
        long n_src = -1;
        auto src   = [&](rvec w) {
            n_src = static_cast<long>(w.size());
            for (index_t i = 0; i < w.size(); ++i)
                w(i) = static_cast<real_t>(kBase[k] + i + 1);
        };
        os << (k ? " |" : "");
        try {
            conv.convert_values(src, vals);
        } catch (const std::exception &e) {
            os << " E2 " << exc_name(e);
            continue;
        }
        os << " vals " << n_src << ' ' << n;
        for (index_t i = 0; i < n; ++i)
            os << ' ' << static_cast<long long>(vals(i));
    }
    os << '\n';
}

template <class From, class To>
void run(std::ostream &os, const From &from, const sp::SparsityConversionRequest<To> &req,
         bool wrap, int ncalls) {
    try {
        if (wrap) {
            using Conv = sp::SparsityConverter<sp::Sparsity<config_t>, To>;
            Conv conv{sp::Sparsity<config_t>{from}, req};
            emit<Conv, To>(os, conv, ncalls);
        } else {
            using Conv = sp::SparsityConverter<From, To>;
            Conv conv{from, req};
            emit<Conv, To>(os, conv, ncalls);
        }
    } catch (const std::exception &e) {
        os << "E1 " << exc_name(e) << '\n';
    }
}

// ---- requests
template <class To>
struct MakeReq;
template <>
struct MakeReq<sp::Dense<config_t>> {
    static auto make(const std::string &) { return sp::SparsityConversionRequest<sp::Dense<config_t>>{}; }
};
template <class I>
struct MakeReq<sp::SparseCOO<config_t, I>> {
    static auto make(const std::string &r) {
        sp::SparsityConversionRequest<sp::SparseCOO<config_t, I>> q{};
        if (r != "-")
            q.first_index = static_cast<I>(std::stoll(r));
        return q;
    }
};
template <class I>
struct MakeReq<sp::SparseCSC<config_t, I>> {
    static auto make(const std::string &r) {
        using S = sp::SparseCSC<config_t, I>;
        sp::SparsityConversionRequest<S> q{};
        if (r != "-")
            q.order = static_cast<typename S::Order>(std::stoi(r));
        return q;
    }
};

template <class From>
void dispatch_to(std::ostream &os, const From &from, const std::string &to, const std::string &req,
                 bool wrap, int ncalls) {
    auto go = [&]<class To>(std::type_identity<To>) {
        run<From, To>(os, from, MakeReq<To>::make(req), wrap, ncalls);
    };
    if (to == "D")
        go(std::type_identity<sp::Dense<config_t>>{});
    else if (to == "Ci")
        go(std::type_identity<sp::SparseCSC<config_t, int>>{});
    else if (to == "Cl")
        go(std::type_identity<sp::SparseCSC<config_t, long>>{});
    else if (to == "Cq")
        go(std::type_identity<sp::SparseCSC<config_t, long long>>{});
    else if (to == "Oi")
        go(std::type_identity<sp::SparseCOO<config_t, int>>{});
    else if (to == "Ol")
        go(std::type_identity<sp::SparseCOO<config_t, long>>{});
    else if (to == "Oq")
        go(std::type_identity<sp::SparseCOO<config_t, long long>>{});
    else
        os << "bad-op\n";
}

template <class I>
void from_csc(std::ostream &os, vp::Toks &t, const std::string &to, const std::string &req,
              bool wrap, int ncalls) {
    CscSrc<I> src;
    src.rows  = t.nat();
    src.cols  = t.nat();
    src.sym   = static_cast<int>(t.nat());
    src.order = static_cast<int>(t.nat());
    src.outer = read_ivec<I>(t);
    src.inner = read_ivec<I>(t);
    dispatch_to(os, src.get(), to, req, wrap, ncalls);
}
template <class I>
void from_coo(std::ostream &os, vp::Toks &t, const std::string &to, const std::string &req,
              bool wrap, int ncalls) {
    CooSrc<I> src;
    src.rows        = t.nat();
    src.cols        = t.nat();
    src.sym         = static_cast<int>(t.nat());
    src.order       = static_cast<int>(t.nat());
    src.first_index = std::stoll(t.tok());
    src.row         = read_ivec<I>(t);
    src.col         = read_ivec<I>(t);
    dispatch_to(os, src.get(), to, req, wrap, ncalls);
}

int main() {
    std::ios::sync_with_stdio(false);
    std::string line;
    while (std::getline(std::cin, line)) {
        vp::Toks t(line);
        std::string op = t.tok();
        std::ostringstream os;
        try {
            if (op == "feature") {
#if ALPAQA_HAVE_COO_CSC_CONVERSIONS
                os << "have_coo_csc 1\n";
#else
                os << "have_coo_csc 0\n";
#endif
            } else if (op == "cv" || op == "cw" || op == "sv" || op == "sw") {
                bool wrap        = op == "cw" || op == "sw";
                int ncalls       = op[0] == 's' ? 3 : 1; // sv / sw: three conversions on ONE converter
                std::string to   = t.tok();
                std::string req  = t.tok();
                std::string from = t.tok();
                if (from == "D") {
                    sp::Dense<config_t> d;
                    d.rows     = t.nat();
                    d.cols     = t.nat();
                    d.symmetry = static_cast<sp::Symmetry>(t.nat());
                    dispatch_to(os, d, to, req, wrap, ncalls);
                } else if (from == "Ci")
                    from_csc<int>(os, t, to, req, wrap, ncalls);
                else if (from == "Cl")
                    from_csc<long>(os, t, to, req, wrap, ncalls);
                else if (from == "Cq")
                    from_csc<long long>(os, t, to, req, wrap, ncalls);
                else if (from == "Oi")
                    from_coo<int>(os, t, to, req, wrap, ncalls);
                else if (from == "Ol")
                    from_coo<long>(os, t, to, req, wrap, ncalls);
                else if (from == "Oq")
                    from_coo<long long>(os, t, to, req, wrap, ncalls);
                else
                    os << "bad-op\n";
            } else {
                os << "bad-op\n";
            }
        } catch (const std::exception &e) {
            os.str("");
            os << "harness-exception " << exc_name(e) << '\n';
        }
        std::cout << os.str();
    }
    std::cout.flush();
}
