// C09 harness: drives the real alpaqa::LBFGS<EigenConfigd> (library TU accelerators/lbfgs.cpp,
// compiled from the working tree) with op lines from stdin; one output line per op.
#include "proto.hpp"
#include <alpaqa/accelerators/lbfgs.hpp>
#include <alpaqa/config/config.hpp>
#include <memory>
#include <optional>

USING_ALPAQA_CONFIG(alpaqa::EigenConfigd);
using LBFGS = alpaqa::LBFGS<config_t>;

static std::string tail(const LBFGS &l) {
    std::string s = "| " + std::to_string(l.current_history());
    std::vector<index_t> f, r;
    l.foreach_fwd([&](index_t i) { f.push_back(i); });
    l.foreach_rev([&](index_t i) { r.push_back(i); });
    s += ' ' + std::to_string(f.size());
    for (auto i : f)
        s += ' ' + std::to_string(i);
    s += ' ' + std::to_string(r.size());
    for (auto i : r)
        s += ' ' + std::to_string(i);
    return s;
}

int main() {
    std::string line;
    std::optional<LBFGS> obj;
    while (std::getline(std::cin, line)) {
        vp::Toks t(line);
        std::string op = t.tok();
        try {
            if (op == "new") {
                LBFGS::Params p;
                p.memory        = t.nat();
                length_t n      = t.nat();
                p.min_div_fac   = t.flt();
                p.min_abs_s     = t.flt();
                p.cbfgs.α       = t.flt();
                p.cbfgs.ϵ       = t.flt();
                p.force_pos_def = t.boolean();
                p.stepsize      = t.boolean() ? alpaqa::LBFGSStepSize::BasedOnCurvature
                                              : alpaqa::LBFGSStepSize::BasedOnExternalStepSize;
                LBFGS fresh{p, n}; // throws for memory < 1 (previous object is kept)
                obj.emplace(std::move(fresh));
                std::cout << "ok " << tail(*obj) << '\n';
                continue;
            }
            if (op != "upd" && op != "usy" && op != "app" && op != "appm" && op != "reset" &&
                op != "resize" && op != "scaley" && op != "dump") {
                std::cout << "bad-op\n";
                continue;
            }
            if (!obj) {
                std::cout << "no-object\n";
                continue;
            }
            LBFGS &l = *obj;
            if (op == "upd") {
                bool pos = t.boolean(), forced = t.boolean();
                vec xk = t.vec(), xn = t.vec(), pk = t.vec(), pn = t.vec();
                bool ok = l.update(xk, xn, pk, pn,
                                   pos ? LBFGS::Sign::Positive : LBFGS::Sign::Negative, forced);
                std::cout << ok << ' ' << tail(l) << '\n';
            } else if (op == "usy") {
                bool forced = t.boolean();
                real_t pTp  = t.flt();
                vec s = t.vec(), y = t.vec();
                bool ok = l.update_sy(s, y, pTp, forced);
                std::cout << ok << ' ' << tail(l) << '\n';
            } else if (op == "app") {
                real_t γ = t.flt();
                vec q    = t.vec();
                bool ok  = l.apply(q, γ);
                std::cout << ok << ' ' << vp::fmtv(q) << ' ' << tail(l) << '\n';
            } else if (op == "appm") {
                long kind = t.nat();
                real_t γ  = t.flt();
                vec q     = t.vec();
                long nJ   = t.nat();
                std::vector<index_t> Jv(nJ);
                for (auto &j : Jv)
                    j = t.nat();
                bool ok;
                try {
                    if (kind == 0) {
                        indexvec J(nJ);
                        for (long k = 0; k < nJ; ++k)
                            J(k) = Jv[k];
                        ok = l.apply_masked(q, γ, J);
                    } else {
                        ok = l.apply_masked(q, γ, Jv);
                    }
                } catch (std::invalid_argument &) {
                    std::cout << "exception " << tail(l) << '\n';
                    continue;
                }
                std::cout << ok << ' ' << vp::fmtv(q) << ' ' << tail(l) << '\n';
            } else if (op == "reset") {
                l.reset();
                std::cout << tail(l) << '\n';
            } else if (op == "resize") {
                l.resize(t.nat());
                std::cout << tail(l) << '\n';
            } else if (op == "scaley") {
                l.scale_y(t.flt());
                std::cout << tail(l) << '\n';
            } else if (op == "dump") {
                const LBFGS &cl = l;
                std::string s;
                cl.foreach_fwd([&](index_t i) {
                    s += vp::fmtv(cl.s(i)) + ' ' + vp::fmtv(cl.y(i)) + ' ' + vp::f2h(cl.ρ(i)) + ' ';
                });
                std::cout << s << tail(l) << '\n';
            }
        } catch (std::exception &e) {
            std::cout << "exception\n";
        }
    }
}
