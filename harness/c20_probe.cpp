// C20 compile probes: small translation units that the property needs to be well-formed
// ("a problem reached through the wrapper / loader … all subsets of optional functions").
// checks/c20.py compiles each with -fsyntax-only -DPROBE=<n> and compares with the expectation.
#include <alpaqa/config/config.hpp>
#include <alpaqa/dl/dl-problem.hpp>
#include <alpaqa/problem/box-constr-problem.hpp>
#include <alpaqa/problem/ocproblem.hpp>
#include <alpaqa/problem/problem-with-counters.hpp>
#include <alpaqa/problem/type-erased-problem.hpp>

USING_ALPAQA_CONFIG(alpaqa::DefaultConfig);

#if PROBE == 1 || PROBE == 2
// an optimal-control problem without output mapping (nh = nh_N = 0): eval_h / eval_h_N are optional
struct OP {
    USING_ALPAQA_CONFIG(alpaqa::DefaultConfig);
    using Box = alpaqa::Box<config_t>;
    length_t get_N() const { return 2; }
    length_t get_nu() const { return 1; }
    length_t get_nx() const { return 1; }
    length_t get_nh() const { return 0; }
    length_t get_nh_N() const { return 0; }
    length_t get_nc() const { return 0; }
    length_t get_nc_N() const { return 0; }
    void eval_proj_diff_g(crvec, rvec) const {}
    void eval_proj_multipliers(rvec, real_t) const {}
    void get_U(Box &) const {}
    void get_x_init(rvec) const {}
    void eval_f(index_t, crvec, crvec, rvec) const {}
    void eval_jac_f(index_t, crvec, crvec, rmat) const {}
    void eval_grad_f_prod(index_t, crvec, crvec, crvec, rvec) const {}
    real_t eval_l(index_t, crvec) const { return 0; }
    real_t eval_l_N(crvec) const { return 0; }
    void eval_qr(index_t, crvec, crvec, rvec) const {}
    void eval_q_N(crvec, crvec, rvec) const {}
    void eval_add_Q(index_t, crvec, crvec, rmat) const {}
    void eval_add_R_masked(index_t, crvec, crvec, crindexvec, rmat, rvec) const {}
    void eval_add_S_masked(index_t, crvec, crvec, crindexvec, rmat, rvec) const {}
    void check() const {}
};
void probe() {
    OP p;
#if PROBE == 1
    alpaqa::TypeErasedControlProblem<config_t> te{&p};
#else
    auto w = alpaqa::ocproblem_with_counters(p);
    alpaqa::TypeErasedControlProblem<config_t> te{&w};
#endif
    (void)te.get_N();
}
#elif PROBE == 3 || PROBE == 4
// Hessian-vector products always available, full Hessian only sometimes (run-time flag)
struct P : alpaqa::BoxConstrProblem<config_t> {
    using BoxConstrProblem::BoxConstrProblem;
    bool have_hess = false;
    real_t eval_f(crvec) const { return 0; }
    void eval_grad_f(crvec, rvec) const {}
    void eval_g(crvec, rvec) const {}
    void eval_grad_g_prod(crvec, crvec, rvec) const {}
    void eval_hess_ψ_prod(crvec, crvec, crvec, real_t, crvec, rvec) const {}
    void eval_hess_ψ(crvec, crvec, crvec, real_t, rvec) const {}
    bool provides_eval_hess_ψ() const { return have_hess; }
};
void probe() {
    P p{2, 0};
#if PROBE == 3
    alpaqa::TypeErasedProblem<config_t> te{&p};
#else
    auto w = alpaqa::problem_with_counters(p);
    alpaqa::TypeErasedProblem<config_t> te{&w};
#endif
    (void)te.provides_eval_hess_ψ_prod();
}
#elif PROBE == 5
void probe(alpaqa::dl::DLControlProblem &p) {
    alpaqa::TypeErasedControlProblem<config_t> te{&p};
    (void)te.get_N();
}
#elif PROBE == 6
void probe(alpaqa::dl::DLProblem &p) {
    alpaqa::TypeErasedProblem<config_t> te{&p};
    auto w = alpaqa::problem_with_counters(p);
    alpaqa::TypeErasedProblem<config_t> tw{&w};
    (void)te.get_n();
    (void)tw.get_n();
}
#endif
