// C16 harness, wrapper kind 2: the REAL alpaqa::TypeErasedControlProblem<DefaultConfig, A> over the
// tracking allocator (library default small-buffer size: 0).  A read goes through eval_add_Q_N, whose
// default reaches eval_add_Q through the wrapper's own vtable + self, and eval_l_N.
#include "c16_common.hpp"
#include <alpaqa/problem/ocproblem.hpp>

namespace c16 {
USING_ALPAQA_CONFIG(alpaqa::DefaultConfig);

template <class D, size_t N>
struct OcpMixin {
    using Box = alpaqa::Box<config_t>;
    const D &d() const { return static_cast<const D &>(*this); }
    void eval_proj_diff_g(crvec, rvec) const {}
    void eval_proj_multipliers(rvec, real_t) const {}
    void get_U(Box &) const {}
    void get_x_init(rvec) const {}
    void eval_f(index_t, crvec, crvec, rvec) const {}
    void eval_jac_f(index_t, crvec, crvec, rmat) const {}
    void eval_grad_f_prod(index_t, crvec, crvec, crvec, rvec) const {}
    real_t eval_l(index_t, crvec) const { return 0; }
    real_t eval_l_N(crvec) const { return static_cast<real_t>(d().val); }
    void eval_qr(index_t, crvec, crvec, rvec) const {}
    void eval_q_N(crvec, crvec, rvec) const {}
    void eval_add_Q(index_t t, crvec, crvec, rmat Q) const {
        Q(0, 0) += static_cast<real_t>(d().id);
        Q(1, 1) += static_cast<real_t>(d().val);
        Q(0, 1) += static_cast<real_t>(t);
    }
    void eval_add_R_masked(index_t, crvec, crvec, crindexvec, rmat, rvec) const {}
    void eval_add_S_masked(index_t, crvec, crvec, crindexvec, rmat, rvec) const {}
    void check() const {}
    length_t get_N() const { return 3; }
    length_t get_nu() const { return 1; }
    length_t get_nx() const { return 2; }
    length_t get_nh() const { return 0; }
    length_t get_nh_N() const { return 0; }
    length_t get_nc() const { return 0; }
    length_t get_nc_N() const { return 0; }
};

template <class A>
struct Kind2 {
    using Wr = alpaqa::TypeErasedControlProblem<config_t, A>;
    template <class D, size_t N>
    using Mixin                 = OcpMixin<D, N>;
    static constexpr size_t sbs = 0;
    static std::pair<long, long> get(const Wr &w) {
        vec x = vec::Zero(2), h = vec::Zero(0);
        mat Q = mat::Zero(2, 2);
        w.eval_add_Q_N(x, h, Q);
        real_t l = w.eval_l_N(h);
        if (l != Q(1, 1) || Q(0, 1) != 3 || w.get_N() != 3 || w.get_nx() != 2)
            ev("BAD:dispatch-reached-two-objects");
        return {static_cast<long>(Q(0, 0)), static_cast<long>(Q(1, 1))};
    }
    template <class F>
    static void set(Wr &w, long, F &&write) { write(w.get_pointer()); }
};

std::unique_ptr<ISession> make_session_k2(int c) { return make_session_for<Kind2>(c); }

} // namespace c16
