// C19, ALM level: the real ALMSolver over a real inner solver (PANOC / ZeroFPR / PANTR / FISTA) on a
// traced problem, with `alm.stop()` called from inside a chosen event.
//
//   almstop solver=panoc|zerofpr|pantr|fista dir=lbfgs|anderson|noop (PANOC, ZeroFPR) | newtontr|advtr (PANTR)
//           <problem / start keys of solver_common.hpp> tol= dtol= almiter= penfac= initpen= maxmult= inittol=
//           singlepen= usesig= <inner-solver keys of solver_run.hpp: maxiter crit L0 Lmax maxnp mem …>
//           stopat=<event index> stopcb=<callback index>
//
// Events (one tick each, counted over the *whole* ALM solve): every problem-function call made by the ALM
// loop or by the inner solver (`projmult` = eval_proj_multipliers, `projdiffg`, `f`, `g`, `gradf`, `gradgprod`,
// `prox`, `psi`, `gradpsi`, `psigradpsi`, `gradL`), every direction call, every progress callback (`cb`).
// Calls made *inside* a direction call are not events (as in the single-solver harnesses).  `stopat=k` calls
// alm.stop() from inside event k, `stopcb=j` from inside the j-th progress callback.
//
// Output:  A <status> <outer> <ε> <δ> <inner iterations> <inner failures>
//        ; X x ; Y y ; K <kkt errors of the library's own utility>
//        ; T <ticks>
//        ; IS <first tick> <last tick> <status> <iterations> <callbacks>      one per inner solve, in order
//        ; L <y_in> <Σ> <err_z> <x of the last callback>                      of the last inner solve
//        ; N <event names in order, `[` / `]` mark inner-solver entry / return>
//        ; ST <tick during which stop() was called>                          (if it was)
#include "solver_pantr.hpp"
#include "solver_run.hpp"
#include <alpaqa/implementation/inner/directions/panoc/structured-lbfgs.tpp>
#include <alpaqa/implementation/inner/fista.tpp>
#include <alpaqa/implementation/inner/panoc.tpp>
#include <alpaqa/implementation/inner/pantr.tpp>
#include <alpaqa/implementation/inner/zerofpr.tpp>
#include <alpaqa/implementation/outer/alm.tpp>
#include <alpaqa/inner/fista.hpp>
#include <alpaqa/outer/alm.hpp>
#include <alpaqa/problem/kkt-error.hpp>

using namespace vs;
namespace al = alpaqa;

// every problem function the ALM loop itself calls is an event as well
struct AlmTraceProblem : TraceProblem {
    using TraceProblem::TraceProblem;
    void eval_proj_diff_g(crvec z, rvec e) const {
        tr->begin("projdiffg");
        inner.eval_proj_diff_g(z, e);
    }
    void eval_proj_multipliers(rvec y, real_t M) const {
        tr->begin("projmult");
        inner.eval_proj_multipliers(y, M);
    }
    real_t eval_f(crvec x) const {
        tr->begin("f");
        return inner.eval_f(x);
    }
    void eval_grad_f(crvec x, rvec g) const {
        tr->begin("gradf");
        inner.eval_grad_f(x, g);
    }
    void eval_g(crvec x, rvec g) const {
        tr->begin("g");
        inner.eval_g(x, g);
    }
    void eval_grad_g_prod(crvec x, crvec y, rvec g) const {
        tr->begin("gradgprod");
        inner.eval_grad_g_prod(x, y, g);
    }
    std::string get_name() const { return "AlmTraceProblem"; }
};

struct InnerRecord {
    long first = 0, last = 0, iterations = 0, callbacks = 0;
    std::string status;
};

struct Shared {
    Trace *tr = nullptr;
    std::vector<InnerRecord> solves;
    vec y_in, Σ_in, errz_out, x_cb;
    long ncb = 0, stopcb = 0, cb_in_solve = 0;
};

// The inner solver as ALM sees it: records entry / return of every inner solve.
template <class S>
struct InnerWrap {
    USING_ALPAQA_CONFIG_TEMPLATE(S::config_t);
    using Problem      = typename S::Problem;
    using Stats        = typename S::Stats;
    using SolveOptions = al::InnerSolveOptions<config_t>;
    S solver;
    Shared *sh;
    InnerWrap(S &&s, Shared *sh) : solver(std::move(s)), sh(sh) {}
    Stats operator()(const Problem &p, const SolveOptions &opts, rvec x, rvec y, crvec Σ, rvec e) {
        InnerRecord r;
        r.first         = sh->tr->ticks + 1;
        sh->y_in        = y;
        sh->Σ_in        = Σ;
        sh->cb_in_solve = 0;
        sh->x_cb.resize(0);
        if (sh->tr->record)
            sh->tr->ev += " ; EV [";
        Stats s      = solver(p, opts, x, y, Σ, e);
        r.last       = sh->tr->ticks;
        r.status     = status_name(s.status);
        r.iterations = s.iterations;
        r.callbacks  = sh->cb_in_solve;
        sh->errz_out = e;
        if (sh->tr->record)
            sh->tr->ev += " ; EV ]";
        sh->solves.push_back(r);
        return s;
    }
    void stop() { solver.stop(); }
    std::string get_name() const { return solver.get_name(); }
};

template <class S>
std::string run_alm(const KV &kv, S &&inner, Trace &tr) {
    using W = InnerWrap<std::remove_cvref_t<S>>;
    PolyProblem poly{kv};
    AlmTraceProblem tp{&poly, &tr};
    al::TypeErasedProblem<config_t> te{&tp};
    Shared sh;
    sh.tr     = &tr;
    sh.stopcb = kv.nat("stopcb", 0);
    inner.set_progress_callback([&](const auto &i) {
        tr.begin("cb");
        ++sh.ncb;
        ++sh.cb_in_solve;
        sh.x_cb = i.x;
        if (sh.stopcb && sh.ncb == sh.stopcb)
            tr.fire_stop();
    });
    typename al::ALMSolver<W>::Params ap;
    ap.tolerance      = kv.flt("tol", 1e-8);
    ap.dual_tolerance = kv.flt("dtol", 1e-8);
    ap.max_iter       = (unsigned)kv.nat("almiter", 100);
    if (kv.has("penfac"))
        ap.penalty_update_factor = kv.flt("penfac");
    if (kv.has("initpen"))
        ap.initial_penalty = kv.flt("initpen");
    if (kv.has("maxpen"))
        ap.max_penalty = kv.flt("maxpen");
    if (kv.has("maxmult"))
        ap.max_multiplier = kv.flt("maxmult");
    if (kv.has("inittol"))
        ap.initial_tolerance = kv.flt("inittol");
    ap.single_penalty_factor = kv.nat("singlepen", 0) != 0;
    ap.print_interval        = 0;
    al::ALMSolver<W> alm{ap, W{std::move(inner), &sh}};
    std::ostream nullos(nullptr);
    alm.os                  = &nullos;
    alm.inner_solver.solver.os = &nullos;
    // via=inner: the request is made on the wrapped inner solver (`alm.inner_solver.stop()`, public API) instead of
    // on ALM: only the inner solver's flag is set, ALM learns of it through the inner status Interrupted
    if (kv.nat("viainner", 0))
        tr.do_stop = [&] { alm.inner_solver.stop(); };
    else
        tr.do_stop = [&] { alm.stop(); };
    vec x = kv.vecv("x0"), y = kv.vecv("y0");
    vec Σv = kv.vecv("Sig");
    typename al::ALMSolver<W>::Stats s;
    if (Σv.size() > 0 && kv.nat("usesig", 0))
        s = alm(te, x, y, Σv);
    else
        s = alm(te, x, y);
    tr.do_stop = nullptr;
    std::string out = "A " + status_name(s.status) + ' ' + std::to_string(s.outer_iterations) + ' ' + vp::f2h(s.ε) +
                      ' ' + vp::f2h(s.δ) + ' ' + std::to_string(s.inner.iterations) + ' ' +
                      std::to_string(s.inner_convergence_failures);
    al::TypeErasedProblem<config_t> plain{&poly};
    auto k = al::compute_kkt_error(plain, x, y);
    out += " ; X " + vp::fmtv(x) + " ; Y " + vp::fmtv(y) + " ; K " + vp::f2h(k.stationarity) + ' ' +
           vp::f2h(k.constr_violation) + ' ' + vp::f2h(k.complementarity) + ' ' + vp::f2h(k.bounds_violation);
    out += " ; T " + std::to_string(tr.ticks);
    for (auto &r : sh.solves)
        out += " ; IS " + std::to_string(r.first) + ' ' + std::to_string(r.last) + ' ' + r.status + ' ' +
               std::to_string(r.iterations) + ' ' + std::to_string(r.callbacks);
    if (!sh.solves.empty())
        out += " ; L " + vp::fmtv(sh.y_in) + ' ' + vp::fmtv(sh.Σ_in) + ' ' + vp::fmtv(sh.errz_out) + ' ' +
               vp::fmtv(sh.x_cb);
    // names only
    out += " ; N";
    const std::string &ev = tr.ev;
    size_t p = 0;
    const std::string tag = " ; EV ";
    while ((p = ev.find(tag, p)) != std::string::npos) {
        p += tag.size();
        size_t q = ev.find(' ', p);
        out += ' ';
        out += ev.substr(p, q == std::string::npos ? std::string::npos : q - p);
    }
    if (!tr.stop_ev.empty())
        out += " ; ST " + tr.stop_ev.substr(std::string(" ; EV stoptick ").size());
    return out;
}

template <class P>
void inner_params(P &p, const KV &kv) {
    set_common_params(p, kv);
    p.max_iter       = (unsigned)kv.nat("maxiter", 200);
    p.print_interval = 0;
}

std::string dispatch(const KV &kv) {
    Trace tr;
    tr.stop_at    = kv.nat("stopat", 0);
    tr.record     = true;
    std::string s = kv.str("solver", "panoc"), d = kv.str("dir", "lbfgs");
    unsigned mem  = (unsigned)kv.nat("mem", 5);
    auto with_panoc_dir = [&](auto make_solver) -> std::string {
        if (d == "noop") {
            using D = al::NoopDirection<config_t>;
            return make_solver(TraceDirection<D>{D{}, &tr});
        } else if (d == "anderson") {
            using D = al::AndersonDirection<config_t>;
            typename D::AcceleratorParams ap;
            ap.memory = mem;
            return make_solver(TraceDirection<D>{D{ap}, &tr});
        }
        using D = al::LBFGSDirection<config_t>;
        typename D::AcceleratorParams ap;
        ap.memory = mem;
        return make_solver(TraceDirection<D>{D{ap}, &tr});
    };
    if (s == "panoc") {
        al::PANOCParams<config_t> p;
        inner_params(p, kv);
        return with_panoc_dir([&](auto dir) {
            return run_alm(kv, al::PANOCSolver<decltype(dir)>{p, std::move(dir)}, tr);
        });
    } else if (s == "zerofpr") {
        al::ZeroFPRParams<config_t> p;
        inner_params(p, kv);
        return with_panoc_dir([&](auto dir) {
            return run_alm(kv, al::ZeroFPRSolver<decltype(dir)>{p, std::move(dir)}, tr);
        });
    } else if (s == "pantr") {
        al::PANTRParams<config_t> p;
        set_pantr_params(p, kv);
        p.max_iter = (unsigned)kv.nat("maxiter", 200);
        if (d == "advtr") {
            using D = TraceTRDirection<AdvTRDirection>;
            return run_alm(kv, al::PANTRSolver<D>{p, D{AdvTRDirection{(uint64_t)kv.nat("advseed", 1),
                                                                       kv.nat("advinit", 0) != 0}, &tr}}, tr);
        }
        using N = al::NewtonTRDirection<config_t>;
        typename N::DirectionParams dp;
        dp.finite_diff = kv.nat("fd", 1) != 0;
        using D = TraceTRDirection<N>;
        return run_alm(kv, al::PANTRSolver<D>{p, D{N{{}, dp}, &tr}}, tr);
    } else if (s == "fista") {
        al::FISTAParams<config_t> p;
        inner_params(p, kv);
        return run_alm(kv, al::FISTASolver<config_t>{p}, tr);
    }
    return "bad-solver";
}

int main() {
    // solvers print diagnostics to std::cout (`*os`): keep the protocol stream separate
    std::ostream real_out(std::cout.rdbuf());
    std::ostringstream sink;
    std::cout.rdbuf(sink.rdbuf());
    std::string line;
    while (std::getline(std::cin, line)) {
        KV kv(line);
        std::string out;
        try {
            if (kv.str("_op") == "almstop")
                out = dispatch(kv);
            else
                out = "bad-op";
        } catch (std::exception &e) {
            out = std::string("exception ") + e.what();
        }
        real_out << out << '\n';
        sink.str("");
    }
}
