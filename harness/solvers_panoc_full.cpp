// PANOC runs for the oracle-free replay (`Driver/LoopFull.lean`): like harness/solvers_panoc.cpp +
// solvers_main.cpp, but
//   * the problem wrapper (vd::FullTraceProblem) also records the problem calls made *inside*
//     direction calls (`EV igradpsi / ihessL / ihesspsi / ig / igradgi`, not ticks),
//   * every parameter of the four shipped direction providers can be set from the op line
//     (rescale, curv, mdf, mas, fpd, hvf, hvfd, fullaug, fpol, amdf; problem: hess, provgi, provhpsi).
// Output format identical to solvers_main.cpp (`S …; O …; T ticks; CB …; EV …`).
#include "dirs_common.hpp" // first: see the note on `#define private public` there
#include "solver_run.hpp"
#include <alpaqa/implementation/inner/directions/panoc/structured-lbfgs.tpp>
#include <alpaqa/implementation/inner/panoc.tpp>

namespace vd {
using vs::TraceDirection;

template <class Dir, class MakeDir>
std::string run_full(const KV &kv, MakeDir make_dir) {
    using Solver = alpaqa::PANOCSolver<TraceDirection<Dir>>;
    DirsProblem poly{kv};
    Trace tr;
    tr.stop_at = kv.nat("stopat", 0);
    tr.record  = kv.nat("trace", 1) != 0;
    FullTraceProblem tp{&poly, &tr};
    tp.nan_at     = kv.nat("nanat", 0);
    tp.wm_scratch = kv.nat("wmscratch", 0) != 0;
    alpaqa::TypeErasedProblem<config_t> te{&tp};
    typename Solver::Params p;
    vs::set_common_params(p, kv);
    p.min_linesearch_coefficient           = kv.flt("minls", 1. / 256);
    p.linesearch_coefficient_update_factor = kv.flt("lsupd", 0.5);
    p.force_linesearch                     = kv.nat("force", 0) != 0;
    p.linesearch_strictness_factor         = kv.flt("beta", 0.95);
    p.linesearch_tolerance_factor          = kv.flt("lstol", 10 * 2.220446049250313e-16);
    p.update_direction_in_candidate        = kv.nat("updcand", 0) != 0;
    p.recompute_last_prox_step_after_stepsize_change = kv.nat("recomp", 0) != 0;
    p.eager_gradient_eval                  = kv.nat("eager", 0) != 0;
    Solver solver{p, TraceDirection<Dir>{make_dir(), &tr}};
    tr.do_stop  = [&] { solver.stop(); };
    long stopcb = kv.nat("stopcb", 0), ncb = 0;
    std::string cbs;
    solver.set_progress_callback([&](const typename Solver::ProgressInfo &i) {
        tr.begin("cb");
        ++ncb;
        cbs += vs::fmt_cb_panoc(i, i.grad_ψ_hat.size() > 0, tr.applied);
        if (stopcb && ncb == stopcb)
            tr.fire_stop();
    });
    vec x = kv.vecv("x0"), y = kv.vecv("y0"), Σ = kv.vecv("Sig"), errz(poly.m);
    errz.setConstant(-12345.0);
    vec x_in = x, y_in = y;
    alpaqa::InnerSolveOptions<config_t> opts;
    opts.always_overwrite_results = kv.nat("overwrite", 1) != 0;
    opts.tolerance                = kv.flt("tol", 1e-8);
    opts.check                    = false;
    std::string out;
    try {
        auto s = solver(te, opts, x, y, Σ, errz);
        out = "S " + vs::status_name(s.status) + ' ' + std::to_string(s.iterations) + ' ' + vp::f2h(s.ε) + ' ' +
              std::to_string(s.linesearch_failures) + ' ' + std::to_string(s.linesearch_backtracks) + ' ' +
              std::to_string(s.stepsize_backtracks) + ' ' + std::to_string(s.lbfgs_failures) + ' ' +
              std::to_string(s.lbfgs_rejected) + ' ' + std::to_string(s.τ_1_accepted) + ' ' +
              std::to_string(s.count_τ) + ' ' + vp::f2h(s.sum_τ) + ' ' + vp::f2h(s.final_γ) + ' ' +
              vp::f2h(s.final_ψ) + ' ' + vp::f2h(s.final_h) + ' ' + vp::f2h(s.final_φγ);
    } catch (std::exception &e) {
        out = std::string("S exception");
    }
    bool untouched = std::memcmp(x.data(), x_in.data(), sizeof(real_t) * x.size()) == 0 &&
                     std::memcmp(y.data(), y_in.data(), sizeof(real_t) * y.size()) == 0;
    out += " ; O " + std::string(untouched ? "1 " : "0 ") + vp::fmtv(x) + ' ' + vp::fmtv(y) + ' ' + vp::fmtv(errz);
    out += " ; T " + std::to_string(tr.ticks);
    out += cbs;
    out += tr.ev;
    out += tr.stop_ev;
    return out;
}

std::string run_panoc_full(const KV &kv) {
    std::string d = kv.str("dir", "lbfgs");
    if (d == "lbfgs")
        return run_full<alpaqa::LBFGSDirection<config_t>>(kv, [&] { return make_lbfgs(kv); });
    if (d == "slbfgs")
        return run_full<alpaqa::StructuredLBFGSDirection<config_t>>(kv, [&] { return make_slbfgs(kv); });
    if (d == "anderson")
        return run_full<alpaqa::AndersonDirection<config_t>>(kv, [&] { return make_anderson(kv); });
    if (d == "noop")
        return run_full<alpaqa::NoopDirection<config_t>>(kv, [&] { return alpaqa::NoopDirection<config_t>{}; });
    return "bad-direction";
}
} // namespace vd

int main() {
    std::streambuf *orig = std::cout.rdbuf();
    std::ostream real_out(orig);
    std::ostringstream sink;
    std::cout.rdbuf(sink.rdbuf());
    std::string line;
    while (std::getline(std::cin, line)) {
        vs::KV kv(line);
        std::string op = kv.str("_op"), solver = kv.str("solver");
        std::string out;
        try {
            if (op == "run" && solver == "panoc")
                out = vd::run_panoc_full(kv);
            else
                out = "bad-op";
        } catch (std::exception &e) {
            out = std::string("exception ") + e.what();
        }
        real_out << out << '\n';
        sink.str("");
    }
    real_out.flush();
    std::cout.rdbuf(orig);
}
