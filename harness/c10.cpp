// C10 harness: drives the real alpaqa::LimitedMemoryQR<EigenConfigd> and
// alpaqa::AndersonAccel<EigenConfigd> with op lines from stdin (stateful; see checks/c10.py).
#include "proto.hpp"
#include <algorithm>
#include <limits>
#include <memory>
#include <optional>
#include <stdexcept>
#include <string>
#include <type_traits>
#include <vector>
#include <Eigen/Core>
#include <Eigen/Jacobi>
#include <alpaqa/config/config.hpp>
#include <alpaqa/export.hpp>
#include <alpaqa/util/ringbuffer.hpp>
#include <alpaqa/accelerators/internal/limited-memory-qr.hpp>
#include <alpaqa/accelerators/internal/anderson-helpers.hpp>
// AndersonAccel keeps G and rₗₐₛₜ private and has no accessor; the harness only *reads* them
// (to show that the G ring stays aligned with the R ring).  All dependencies are included above,
// so the macro affects nothing but the class body of AndersonAccel.
#define private public
#include <alpaqa/accelerators/anderson.hpp>
#undef private

USING_ALPAQA_CONFIG(alpaqa::EigenConfigd);
using QR = alpaqa::LimitedMemoryQR<config_t>;
using AA = alpaqa::AndersonAccel<config_t>;

static std::string pairs_fwd(const QR &qr) {
    std::string s;
    long cnt = 0;
    for (auto [i, c] : qr.ring_iter()) {
        s += ' ' + std::to_string(i) + ' ' + std::to_string(c);
        ++cnt;
    }
    return std::to_string(cnt) + s;
}
static std::string pairs_rev(const QR &qr) {
    std::string s;
    long cnt = 0;
    for (auto [i, c] : qr.ring_reverse_iter()) {
        s += ' ' + std::to_string(i) + ' ' + std::to_string(c);
        ++cnt;
    }
    return std::to_string(cnt) + s;
}

static std::string dump_qr(const QR &qr) {
    index_t K = qr.num_columns();
    std::string s = std::to_string(K) + ' ' + std::to_string(qr.ring_head()) + ' ' +
                    std::to_string(qr.ring_tail()) + ' ' + std::to_string(qr.current_history()) + ' ' +
                    std::to_string(qr.get_reorth_count()) + ' ' + vp::f2h(qr.get_min_eig()) + ' ' +
                    vp::f2h(qr.get_max_eig());
    s += " | " + pairs_fwd(qr) + " | " + pairs_rev(qr);
    // ring_next / ring_prev of every storage index
    s += " | " + std::to_string(2 * qr.m());
    for (index_t i = 0; i < qr.m(); ++i)
        s += ' ' + std::to_string(qr.ring_next(i));
    for (index_t i = 0; i < qr.m(); ++i)
        s += ' ' + std::to_string(qr.ring_prev(i));
    mat R = qr.get_R(); // K × K, upper triangular view of the ring-ordered columns
    mat Q = qr.get_Q(); // n × K
    s += " | " + std::to_string(K * K);
    for (index_t k = 0; k < K; ++k)
        for (index_t i = 0; i < K; ++i)
            s += ' ' + vp::f2h(R(i, k));
    s += " | " + std::to_string(qr.n() * K);
    for (index_t k = 0; k < K; ++k)
        for (index_t i = 0; i < qr.n(); ++i)
            s += ' ' + vp::f2h(Q(i, k));
    return s;
}

static std::string dump_aa(const AA &aa) {
    const QR &qr = aa.get_QR();
    std::string s = std::string(aa.initialized ? "1" : "0") + ' ' + std::to_string(qr.n()) + ' ' +
                    std::to_string(qr.m()) + " | ";
    if (aa.initialized) {
        std::vector<index_t> cols;
        for (auto [i, c] : qr.ring_iter())
            cols.push_back(c);
        cols.push_back(qr.ring_tail());
        s += std::to_string(cols.size() * aa.n());
        for (auto c : cols)
            for (index_t i = 0; i < aa.n(); ++i)
                s += ' ' + vp::f2h(aa.G(i, c));
        s += " | " + vp::fmtv(aa.rₗₐₛₜ);
    } else {
        s += "0 | 0";
    }
    return s + " | " + dump_qr(qr);
}

int main() {
    std::ios::sync_with_stdio(false);
    std::optional<QR> qr;
    std::vector<QR> stack;
    std::optional<AA> aa;
    std::vector<AA> astack;
    std::string line;
    while (std::getline(std::cin, line)) {
        vp::Toks t(line);
        std::string op = t.tok();
        try {
            if (op == "new") {
                long n = t.nat(), m = t.nat();
                qr.emplace(n, m);
                stack.clear();
                std::cout << dump_qr(*qr) << '\n';
            } else if (op == "anew") {
                long n = t.nat(), mem = t.nat();
                real_t mdf = t.flt();
                AA::Params p;
                p.memory      = mem;
                p.min_div_fac = mdf;
                aa.emplace(p, n);
                astack.clear();
                std::cout << dump_aa(*aa) << '\n';
            } else if (op == "add" || op == "rem" || op == "scale" || op == "reset" || op == "solve" ||
                       op == "push" || op == "pop") {
                if (op == "pop") {
                    if (stack.empty()) {
                        std::cout << "empty-stack\n";
                        continue;
                    }
                    qr = stack.back();
                    stack.pop_back();
                    std::cout << dump_qr(*qr) << '\n';
                    continue;
                }
                if (!qr) {
                    std::cout << "no-object\n";
                    continue;
                }
                if (op == "add") {
                    vec v = t.vec();
                    qr->add_column(v);
                    std::cout << dump_qr(*qr) << '\n';
                } else if (op == "rem") {
                    qr->remove_column();
                    std::cout << dump_qr(*qr) << '\n';
                } else if (op == "scale") {
                    qr->scale_R(t.flt());
                    std::cout << dump_qr(*qr) << '\n';
                } else if (op == "reset") {
                    qr->reset();
                    std::cout << dump_qr(*qr) << '\n';
                } else if (op == "solve") {
                    vec b      = t.vec();
                    real_t tol = t.flt();
                    vec x      = t.vec();
                    qr->solve_col(b, x, tol);
                    std::cout << vp::fmtv(x) << '\n';
                } else if (op == "push") {
                    stack.push_back(*qr);
                    std::cout << "ok " << stack.size() << '\n';
                }
            } else if (op == "ainit" || op == "acomp" || op == "areset" || op == "ascale" ||
                       op == "apush" || op == "apop") {
                if (op == "apop") {
                    if (astack.empty()) {
                        std::cout << "empty-stack\n";
                        continue;
                    }
                    aa = astack.back();
                    astack.pop_back();
                    std::cout << dump_aa(*aa) << '\n';
                    continue;
                }
                if (!aa) {
                    std::cout << "no-object\n";
                    continue;
                }
                if (op == "ainit") {
                    vec g = t.vec(), r = t.vec();
                    aa->initialize(g, r);
                    std::cout << dump_aa(*aa) << '\n';
                } else if (op == "acomp") {
                    vec g = t.vec(), r = t.vec();
                    vec x(aa->n());
                    aa->compute(g, r, x);
                    std::cout << vp::fmtv(x) << " | " << vp::fmtv(aa->γ_LS.head(aa->get_QR().num_columns())) << " | " << dump_aa(*aa) << '\n';
                } else if (op == "areset") {
                    aa->reset();
                    std::cout << dump_aa(*aa) << '\n';
                } else if (op == "ascale") {
                    aa->scale_R(t.flt());
                    std::cout << dump_aa(*aa) << '\n';
                } else if (op == "apush") {
                    astack.push_back(*aa);
                    std::cout << "ok " << astack.size() << '\n';
                }
            } else {
                std::cout << "bad-op\n";
            }
        } catch (std::exception &e) {
            std::cout << "exception\n";
        }
    }
}
