// Shared pieces of the solver-run harness: key=value op lines, the polynomial test problem, the
// tracing problem wrapper, the tracing / adversarial direction wrappers, output formatting.
#pragma once
#include "proto.hpp"
#include <alpaqa/config/config.hpp>
#include <alpaqa/inner/internal/solverstatus.hpp>
#include <alpaqa/problem/box-constr-problem.hpp>
#include <alpaqa/problem/type-erased-problem.hpp>
#include <functional>
#include <map>
#include <memory>
#include <sstream>

namespace vs {
USING_ALPAQA_CONFIG(alpaqa::DefaultConfig);
using Box = alpaqa::Box<config_t>;

// ---------------------------------------------------------------- key=value op lines
struct KV {
    std::map<std::string, std::string> m;
    explicit KV(const std::string &line) {
        std::istringstream is(line);
        std::string w;
        while (is >> w) {
            auto e = w.find('=');
            if (e == std::string::npos)
                m["_op"] = w;
            else
                m[w.substr(0, e)] = w.substr(e + 1);
        }
    }
    bool has(const std::string &k) const { return m.count(k) > 0; }
    std::string str(const std::string &k, const std::string &d = "") const {
        auto it = m.find(k);
        return it == m.end() ? d : it->second;
    }
    long nat(const std::string &k, long d = 0) const {
        auto it = m.find(k);
        return it == m.end() ? d : std::stol(it->second);
    }
    real_t flt(const std::string &k, real_t d = 0) const {
        auto it = m.find(k);
        return it == m.end() ? d : vp::h2f(it->second);
    }
    vec vecv(const std::string &k) const {
        auto it = m.find(k);
        if (it == m.end())
            return vec(0);
        const std::string &s = it->second;
        auto c  = s.find(':');
        long n  = std::stol(s.substr(0, c));
        vec v(n);
        size_t p = c + 1;
        for (long i = 0; i < n; ++i) {
            size_t q = s.find(',', p);
            v(i)     = vp::h2f(s.substr(p, q == std::string::npos ? std::string::npos : q - p));
            p        = q + 1;
        }
        return v;
    }
};

// ---------------------------------------------------------------- polynomial problem
//  f(x) = ½ xᵀQx + cᵀx + ¼ Σ q4_i x_i⁴         (Q row-major n×n, need not be PSD)
//  g_j(x) = a_jᵀ x + ½ b_j ‖x‖²                 (A row-major m×n)
struct PolyProblem : alpaqa::BoxConstrProblem<config_t> {
    vec Q, c, q4, A, b;
    bool with_hess = false;
    PolyProblem(const KV &kv)
        : BoxConstrProblem{Box::from_lower_upper(kv.vecv("Clb"), kv.vecv("Cub")),
                           Box::from_lower_upper(kv.vecv("Dlb"), kv.vecv("Dub")), kv.vecv("l1")},
          Q(kv.vecv("Q")), c(kv.vecv("c")), q4(kv.vecv("q4")), A(kv.vecv("A")), b(kv.vecv("b")),
          with_hess(kv.nat("hess", 0) != 0) {}
    real_t eval_f(crvec x) const {
        real_t s = 0;
        for (index_t i = 0; i < n; ++i) {
            real_t r = 0;
            for (index_t j = 0; j < n; ++j)
                r += Q(i * n + j) * x(j);
            s += real_t(0.5) * x(i) * r + c(i) * x(i) + real_t(0.25) * q4(i) * x(i) * x(i) * x(i) * x(i);
        }
        return s;
    }
    void eval_grad_f(crvec x, rvec g) const {
        for (index_t i = 0; i < n; ++i) {
            real_t r = 0;
            for (index_t j = 0; j < n; ++j)
                r += real_t(0.5) * (Q(i * n + j) + Q(j * n + i)) * x(j);
            g(i) = r + c(i) + q4(i) * x(i) * x(i) * x(i);
        }
    }
    void eval_g(crvec x, rvec gx) const {
        real_t xx = x.squaredNorm();
        for (index_t j = 0; j < m; ++j) {
            real_t r = 0;
            for (index_t i = 0; i < n; ++i)
                r += A(j * n + i) * x(i);
            gx(j) = r + real_t(0.5) * b(j) * xx;
        }
    }
    void eval_grad_g_prod(crvec x, crvec y, rvec g) const {
        for (index_t i = 0; i < n; ++i) {
            real_t r = 0;
            for (index_t j = 0; j < m; ++j)
                r += (A(j * n + i) + b(j) * x(i)) * y(j);
            g(i) = r;
        }
    }
    // ∇²L(x,y) v = scale·(sym(Q) v + 3 q4 x² ∘ v) + (Σ_j b_j y_j) v
    void eval_hess_L_prod(crvec x, crvec y, real_t scale, crvec v, rvec Hv) const {
        real_t by = 0;
        for (index_t j = 0; j < m; ++j)
            by += b(j) * y(j);
        for (index_t i = 0; i < n; ++i) {
            real_t r = 0;
            for (index_t j = 0; j < n; ++j)
                r += real_t(0.5) * (Q(i * n + j) + Q(j * n + i)) * v(j);
            Hv(i) = scale * (r + 3 * q4(i) * x(i) * x(i) * v(i)) + by * v(i);
        }
    }
    bool provides_eval_hess_L_prod() const { return with_hess; }
    std::string get_name() const { return "PolyProblem"; }
};

// ---------------------------------------------------------------- event trace
struct Trace {
    std::string ev;       // " ; EV name k v… " sections
    std::string stop_ev;  // " ; EV stoptick <tick>" (kept apart: stop() fires in the middle of an event)
    long ticks   = 0;     // main-level events so far (problem calls by the solver, direction calls, callbacks)
    long nested  = 0;     // depth of direction calls (problem calls made inside are not events)
    long stop_at = 0;     // call stop() during this event (1-based), 0 = never
    std::function<void()> do_stop;
    bool record = true;
    bool applied = false; // has the direction's apply() been called yet? (q is uninitialised before)
    void begin(const char *name) {
        if (nested)
            return;
        ++ticks;
        if (record) {
            ev += " ; EV ";
            ev += name;
        }
        if (stop_at && ticks == stop_at)
            fire_stop();
    }
    void fire_stop() {
        if (do_stop)
            do_stop();
        if (stop_ev.empty())
            stop_ev = " ; EV stoptick " + std::to_string(ticks);
    }
    void num(real_t x) {
        if (nested || !record)
            return;
        ev += ' ';
        ev += vp::f2h(x);
    }
    void flag(bool b) {
        if (nested || !record)
            return;
        ev += b ? " 1" : " 0";
    }
    template <class V>
    void v(const V &x) {
        if (nested || !record)
            return;
        ev += ' ';
        ev += vp::fmtv(x);
    }
};

// ---------------------------------------------------------------- tracing problem wrapper
struct TraceProblem {
    USING_ALPAQA_CONFIG(alpaqa::DefaultConfig);
    alpaqa::TypeErasedProblem<config_t> inner;
    const PolyProblem *poly;
    Trace *tr;
    // NaN injection: make the k-th ψ-type evaluation return NaN (0 = never)
    long nan_at = 0;
    mutable long n_psi_evals = 0;
    // emulate a problem whose own eval_ψ_grad_ψ uses `work_m` as scratch space (the interface only
    // says "dimension m workspace"; CasADiProblem does not write ŷ there either)
    bool wm_scratch = false;
    TraceProblem(const PolyProblem *p, Trace *tr) : inner{p}, poly{p}, tr{tr} {}

    length_t get_n() const { return inner.get_n(); }
    length_t get_m() const { return inner.get_m(); }
    void eval_proj_diff_g(crvec z, rvec e) const { inner.eval_proj_diff_g(z, e); }
    void eval_proj_multipliers(rvec y, real_t M) const { inner.eval_proj_multipliers(y, M); }
    real_t eval_f(crvec x) const { return inner.eval_f(x); }
    void eval_grad_f(crvec x, rvec g) const { inner.eval_grad_f(x, g); }
    void eval_g(crvec x, rvec g) const { inner.eval_g(x, g); }
    void eval_grad_g_prod(crvec x, crvec y, rvec g) const { inner.eval_grad_g_prod(x, y, g); }
    index_t eval_inactive_indices_res_lna(real_t γ, crvec x, crvec g, rindexvec J) const {
        return inner.eval_inactive_indices_res_lna(γ, x, g, J);
    }
    void eval_hess_L_prod(crvec x, crvec y, real_t s, crvec v, rvec Hv) const {
        inner.eval_hess_L_prod(x, y, s, v, Hv);
    }
    bool provides_eval_hess_L_prod() const { return inner.provides_eval_hess_L_prod(); }
    void eval_hess_ψ_prod(crvec x, crvec y, crvec Σ, real_t s, crvec v, rvec Hv) const {
        inner.eval_hess_ψ_prod(x, y, Σ, s, v, Hv);
    }
    bool provides_eval_hess_ψ_prod() const { return inner.provides_eval_hess_ψ_prod(); }
    const Box &get_box_C() const { return inner.get_box_C(); }
    const Box &get_box_D() const { return inner.get_box_D(); }
    bool provides_get_box_C() const { return inner.provides_get_box_C(); }
    void check() const { inner.check(); }
    std::string get_name() const { return "TraceProblem"; }

    real_t poison(real_t v) const {
        ++n_psi_evals;
        return (nan_at && n_psi_evals == nan_at) ? std::numeric_limits<real_t>::quiet_NaN() : v;
    }

    real_t eval_prox_grad_step(real_t γ, crvec x, crvec g, rvec xh, rvec p) const {
        tr->begin("prox");
        tr->num(γ), tr->v(x), tr->v(g);
        real_t h = inner.eval_prox_grad_step(γ, x, g, xh, p);
        tr->num(h), tr->v(xh), tr->v(p);
        return h;
    }
    real_t eval_ψ(crvec x, crvec y, crvec Σ, rvec ŷ) const {
        tr->begin("psi");
        tr->v(x);
        real_t r = poison(inner.eval_ψ(x, y, Σ, ŷ));
        tr->num(r), tr->v(ŷ);
        return r;
    }
    void eval_grad_ψ(crvec x, crvec y, crvec Σ, rvec g, rvec wn, rvec wm) const {
        tr->begin("gradpsi");
        tr->v(x);
        inner.eval_grad_ψ(x, y, Σ, g, wn, wm);
        if (wm_scratch) // work vectors are scratch space: a solver that reads ŷ out of `work_m` afterwards is exposed
            wm.setConstant(real_t(777)), wn.setConstant(real_t(-555));
        tr->v(g);
    }
    real_t eval_ψ_grad_ψ(crvec x, crvec y, crvec Σ, rvec g, rvec wn, rvec wm) const {
        tr->begin("psigradpsi");
        tr->v(x);
        real_t r = poison(inner.eval_ψ_grad_ψ(x, y, Σ, g, wn, wm));
        if (wm_scratch)
            wm.setConstant(real_t(777));
        tr->num(r), tr->v(g), tr->v(wm);
        return r;
    }
    void eval_grad_L(crvec x, crvec y, rvec g, rvec wn) const {
        tr->begin("gradL");
        tr->v(x), tr->v(y);
        inner.eval_grad_L(x, y, g, wn);
        tr->v(g);
    }
};

// ---------------------------------------------------------------- tracing direction wrapper
template <class Inner>
struct TraceDirection {
    USING_ALPAQA_CONFIG_TEMPLATE(Inner::config_t);
    using Problem           = alpaqa::TypeErasedProblem<config_t>;
    using AcceleratorParams = typename Inner::AcceleratorParams;
    using DirectionParams   = typename Inner::DirectionParams;
    Inner inner;
    Trace *tr = nullptr;
    TraceDirection() = default;
    TraceDirection(Inner &&in, Trace *tr) : inner(std::move(in)), tr(tr) {}
    struct Nest {
        Trace *t;
        Nest(Trace *t) : t(t) { ++t->nested; }
        ~Nest() { --t->nested; }
    };
    void initialize(const Problem &problem, crvec y, crvec Σ, real_t γ, crvec x, crvec xh, crvec p,
                    crvec g) {
        tr->begin("dinit");
        tr->num(γ), tr->v(x), tr->v(xh), tr->v(p), tr->v(g);
        Nest n{tr};
        inner.initialize(problem, y, Σ, γ, x, xh, p, g);
    }
    bool has_initial_direction() const {
        tr->begin("dhasinit");
        bool r;
        {
            Nest n{tr};
            r = inner.has_initial_direction();
        }
        tr->flag(r);
        return r;
    }
    bool update(real_t γk, real_t γn, crvec xk, crvec xn, crvec pk, crvec pn, crvec gk, crvec gn) {
        tr->begin("dupdate");
        tr->num(γk), tr->num(γn), tr->v(xk), tr->v(xn), tr->v(pk), tr->v(pn), tr->v(gk), tr->v(gn);
        bool r;
        {
            Nest n{tr};
            r = inner.update(γk, γn, xk, xn, pk, pn, gk, gn);
        }
        tr->flag(r);
        return r;
    }
    bool apply(real_t γ, crvec x, crvec xh, crvec p, crvec g, rvec q) const {
        tr->begin("dapply");
        tr->applied = true;
        tr->num(γ), tr->v(x), tr->v(xh), tr->v(p), tr->v(g);
        bool r;
        {
            Nest n{tr};
            r = inner.apply(γ, x, xh, p, g, q);
        }
        tr->flag(r), tr->v(q);
        return r;
    }
    void changed_γ(real_t γ, real_t old_γ) {
        tr->begin("dchanged");
        tr->num(γ), tr->num(old_γ);
        Nest n{tr};
        inner.changed_γ(γ, old_γ);
    }
    void reset() {
        tr->begin("dreset");
        Nest n{tr};
        inner.reset();
    }
    std::string get_name() const { return "Trace<" + inner.get_name() + ">"; }
    auto get_params() const { return inner.get_params(); }
};

// ---------------------------------------------------------------- adversarial direction
// Deterministic, seeded: returns ascent directions, huge steps, NaN steps, failures.
struct AdvDirection {
    USING_ALPAQA_CONFIG(alpaqa::DefaultConfig);
    using Problem           = alpaqa::TypeErasedProblem<config_t>;
    using AcceleratorParams = std::monostate;
    using DirectionParams   = std::monostate;
    uint64_t state          = 1;
    bool initial            = false;
    AdvDirection() = default;
    AdvDirection(uint64_t seed, bool initial) : state(seed * 2654435761u + 12345), initial(initial) {}
    uint64_t next() const {
        auto &s = const_cast<uint64_t &>(state);
        s ^= s << 13, s ^= s >> 7, s ^= s << 17;
        return s;
    }
    void initialize(const Problem &, crvec, crvec, real_t, crvec, crvec, crvec, crvec) {}
    bool has_initial_direction() const { return initial; }
    bool update(real_t, real_t, crvec, crvec, crvec, crvec, crvec, crvec) { return next() % 3 != 0; }
    bool apply(real_t γ, crvec, crvec, crvec p, crvec g, rvec q) const {
        switch (next() % 8) {
            case 0: return false;
            case 1: q = γ * g; return true;                  // ascent direction
            case 2: q = real_t(1e6) * p; return true;         // huge step
            case 3: q = -real_t(3) * p; return true;          // wrong way
            case 4: q = p; q(0) = std::numeric_limits<real_t>::quiet_NaN(); return true;
            case 5: q = real_t(0.5) * p; return true;
            case 6: q = p - γ * g; return true;
            default: q = p; return true;
        }
    }
    void changed_γ(real_t, real_t) {}
    void reset() {}
    std::string get_name() const { return "AdvDirection"; }
    void get_params() const {}
};

inline std::string status_name(alpaqa::SolverStatus s) { return alpaqa::enum_name(s); }

} // namespace vs
