// C04: the "straightforward" closed forms of the problem functions on raw arrays, shared by the
// tagged problem classes (c04_problem.hpp), the FunctionalProblem lambdas and the C-ABI plug-in
// (c04_plugin.cpp).  The operation order mirrors lean/Alpaqa/Model/C04.lean (`specPsi`, …) and
// lean/Driver/C04.lean so that both sides agree bit for bit.
//
// The problem is *table driven*: f, ∇f, g, the Jacobian J, ∇²f and the (diagonal) constraint
// Hessians are data valid at one point x; every function checks that it is called at exactly that
// x (otherwise it returns NaN), so a default that passes the wrong vector is visible.
#pragma once
#include <cmath>
#include <limits>
#include <string>
#include <vector>

namespace c04 {

struct Data {
    long n = 0, m = 0;
    const double *x = nullptr, *gf = nullptr, *g = nullptr, *J = nullptr, *Hf = nullptr, *HG = nullptr,
                 *lb = nullptr, *ub = nullptr;
    double f0 = 0;
    unsigned mask = 0;
    std::vector<std::string> *log = nullptr;
};

enum Bit : unsigned {
    B_f_grad_f = 1u << 0, B_f_g = 1u << 1, B_gfggp = 1u << 2, B_grad_L = 1u << 3, B_psi = 1u << 4,
    B_grad_psi = 1u << 5, B_psi_grad_psi = 1u << 6, B_hess_L_prod = 1u << 7, B_hess_psi_prod = 1u << 8,
    B_hess_L = 1u << 9, B_hess_psi = 1u << 10,
};

inline double nan_() { return std::numeric_limits<double>::quiet_NaN(); }
inline void tag(const Data &d, const char *t) { if (d.log) d.log->push_back(t); }

// Work vectors: a provider that is handed scratch storage `work_n` ∈ ℝⁿ / `work_m` ∈ ℝᵐ may use all
// of it and may leave anything in it.  Every provider function of this harness therefore (a) checks
// the size it was given against n resp. m — a mismatch is reported as a `WORKERR:…` token in the call
// log (which the model never prints), not by aborting — and (b) overwrites the whole vector with a
// recognisable pattern before returning, so that a caller relying on workspace contents, or handing
// over a buffer of the wrong length, is exposed.  Through a raw pointer (C ABI) the size is unknown
// (`size < 0`): the documented length is written; the harness puts guard cells behind its buffers.
constexpr double WORK_PATTERN = -7.25e77;
inline void work_vec(const Data &d, const char *fn, const char *which, double *p, long size, long want) {
    if (size >= 0 && size != want && d.log)
        d.log->push_back(std::string("WORKERR:") + fn + ":" + which + ":size=" + std::to_string(size) +
                         ":want=" + std::to_string(want));
    long k = size >= 0 ? size : want;
    for (long i = 0; i < k; ++i)
        p[i] = WORK_PATTERN;
}
inline bool same_x(const Data &d, const double *x) {
    for (long i = 0; i < d.n; ++i)
        if (!(x[i] == d.x[i]))
            return false;
    return true;
}
inline double k_f(const Data &d, const double *x) { return same_x(d, x) ? d.f0 : nan_(); }
inline void k_grad_f(const Data &d, const double *x, double *out) {
    bool ok = same_x(d, x);
    for (long i = 0; i < d.n; ++i)
        out[i] = ok ? d.gf[i] : nan_();
}
inline void k_g(const Data &d, const double *x, double *out) {
    bool ok = same_x(d, x);
    for (long j = 0; j < d.m; ++j)
        out[j] = ok ? d.g[j] : nan_();
}
// (∇g·y)_i = Σ_j J_ji y_j, left to right from 0
inline void k_grad_g_prod(const Data &d, const double *x, const double *y, double *out) {
    bool ok = same_x(d, x);
    for (long i = 0; i < d.n; ++i) {
        double acc = 0;
        for (long j = 0; j < d.m; ++j)
            acc = acc + d.J[j * d.n + i] * y[j];
        out[i] = ok ? acc : nan_();
    }
}
// z − Π_[lb,ub] z with std::max / std::min semantics (= Eigen cwiseMax / cwiseMin)
inline double k_pd1(double z, double lb, double ub) {
    double p = (z < lb) ? lb : z;
    p        = (ub < p) ? ub : p;
    return z - p;
}
inline double sig_at(const double *S, long nS, long j) { return nS == 1 ? S[0] : S[j]; }
// ζ = g + y/Σ; d = ζ − Πζ; ŷ = Σ d; returns Σ_j (d_j Σ_j) d_j (left to right from 0)
inline double k_yhat(const Data &d, const double *g, const double *y, const double *S, long nS,
                     const double *lb, const double *ub, double *yhat, double *dvec = nullptr) {
    double acc = 0;
    for (long j = 0; j < d.m; ++j) {
        double s    = sig_at(S, nS, j);
        double zeta = g[j] + y[j] / s;
        double dj   = k_pd1(zeta, lb[j], ub[j]);
        yhat[j]     = s * dj;
        if (dvec)
            dvec[j] = dj;
    }
    for (long j = 0; j < d.m; ++j) {
        double s  = sig_at(S, nS, j);
        double dj = dvec ? dvec[j] : k_pd1(g[j] + y[j] / s, lb[j], ub[j]);
        acc       = acc + (dj * s) * dj;
    }
    return acc;
}
// (ψ, ŷ)
inline double k_psi(const Data &d, const double *x, const double *y, const double *S, long nS,
                    const double *lb, const double *ub, double *yhat) {
    std::vector<double> g(d.m);
    k_g(d, x, g.data());
    double dsq = k_yhat(d, g.data(), y, S, nS, lb, ub, yhat);
    return k_f(d, x) + dsq / 2;
}
// ∇L = ∇f + ∇g·y
inline void k_grad_L(const Data &d, const double *x, const double *y, double *out) {
    std::vector<double> a(d.n), b(d.n);
    k_grad_f(d, x, a.data());
    k_grad_g_prod(d, x, y, b.data());
    for (long i = 0; i < d.n; ++i)
        out[i] = a[i] + b[i];
}
// ∇ψ = ∇L(x, ŷ)
inline void k_grad_psi(const Data &d, const double *x, const double *y, const double *S, long nS,
                       const double *lb, const double *ub, double *out) {
    std::vector<double> g(d.m), yh(d.m);
    k_g(d, x, g.data());
    k_yhat(d, g.data(), y, S, nS, lb, ub, yh.data());
    k_grad_L(d, x, yh.data(), out);
}
// c_i = Σ_j HG_ji w_j
inline double k_hgw(const Data &d, const double *w, long i) {
    double acc = 0;
    for (long j = 0; j < d.m; ++j)
        acc = acc + d.HG[j * d.n + i] * w[j];
    return acc;
}
// ∇²L·v = s (∇²f v) + (HGᵀy) ⊙ v
inline void k_hess_L_prod(const Data &d, const double *x, const double *y, double s, const double *v,
                          double *out) {
    bool ok = same_x(d, x);
    for (long i = 0; i < d.n; ++i) {
        double acc = 0;
        for (long k = 0; k < d.n; ++k)
            acc = acc + d.Hf[i * d.n + k] * v[k];
        double r = s * acc + k_hgw(d, y, i) * v[i];
        out[i]   = ok ? r : nan_();
    }
}
inline void k_hess_L(const Data &d, const double *x, const double *y, double s, double *out) {
    bool ok = same_x(d, x);
    for (long i = 0; i < d.n; ++i)
        for (long k = 0; k < d.n; ++k) {
            double r = s * d.Hf[i * d.n + k];
            if (i == k)
                r = r + k_hgw(d, y, i);
            out[i * d.n + k] = ok ? r : nan_();
        }
}
// a_j = (d_j ≠ 0) ? Σ_j : 0   (generalised Hessian of ½ dist²)
inline void k_active(const Data &d, const double *x, const double *y, const double *S, long nS,
                     const double *lb, const double *ub, double *yhat, double *act) {
    std::vector<double> g(d.m), dv(d.m);
    k_g(d, x, g.data());
    k_yhat(d, g.data(), y, S, nS, lb, ub, yhat, dv.data());
    for (long j = 0; j < d.m; ++j)
        act[j] = (dv[j] == 0) ? 0.0 : sig_at(S, nS, j);
}
// ∇²ψ·v = ∇²L(x, ŷ)·v + Jᵀ (a ⊙ (J v))
inline void k_hess_psi_prod(const Data &d, const double *x, const double *y, const double *S, long nS,
                            double s, const double *lb, const double *ub, const double *v, double *out) {
    std::vector<double> yh(d.m), act(d.m), w(d.m);
    k_active(d, x, y, S, nS, lb, ub, yh.data(), act.data());
    k_hess_L_prod(d, x, yh.data(), s, v, out);
    for (long j = 0; j < d.m; ++j) {
        double acc = 0;
        for (long k = 0; k < d.n; ++k)
            acc = acc + d.J[j * d.n + k] * v[k];
        w[j] = act[j] * acc;
    }
    for (long i = 0; i < d.n; ++i) {
        double acc = 0;
        for (long j = 0; j < d.m; ++j)
            acc = acc + d.J[j * d.n + i] * w[j];
        out[i] = out[i] + acc;
    }
}
inline void k_hess_psi(const Data &d, const double *x, const double *y, const double *S, long nS,
                       double s, const double *lb, const double *ub, double *out) {
    std::vector<double> yh(d.m), act(d.m);
    k_active(d, x, y, S, nS, lb, ub, yh.data(), act.data());
    k_hess_L(d, x, yh.data(), s, out);
    for (long i = 0; i < d.n; ++i)
        for (long k = 0; k < d.n; ++k) {
            double acc = 0;
            for (long j = 0; j < d.m; ++j)
                acc = acc + (d.J[j * d.n + i] * act[j]) * d.J[j * d.n + k];
            out[i * d.n + k] = out[i * d.n + k] + acc;
        }
}

} // namespace c04
