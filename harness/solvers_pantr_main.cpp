// PANTR solver-run harness entry point: one op line -> one output line.
//
// `malloc` is interposed so that every fresh allocation is filled with 0xFF bytes (a NaN bit
// pattern for doubles).  PANTR hands never-written storage to the progress callback (`grad_ψx̂`
// after the swap in `compute_FBS_step`, `q` before the first `apply`); the fill pins that storage
// to the value the replay driver uses for the model's `garbage` parameter (NaN vectors), so the
// comparison stays bit-exact and any *use* of such storage in a decision shows up as NaN.
#include "solver_common.hpp"
#include <cstdlib>
#include <cstring>

extern "C" void *__libc_malloc(size_t);
extern "C" void *malloc(size_t n) {
    void *p = __libc_malloc(n);
    if (p)
        std::memset(p, 0xFF, n);
    return p;
}

namespace vs {
std::string run_pantr(const KV &kv);
}
int main() {
    // PANTR prints "Direction fail: …" to `*os` (std::cout by default).  run_pantr_with points
    // `solver.os` at a null stream; in addition the protocol stream is kept apart from std::cout so
    // that no diagnostic of the library can break the one-line-per-op protocol.
    std::streambuf *orig = std::cout.rdbuf();
    std::ostream real_out(orig);
    std::ostringstream sink;
    std::cout.rdbuf(sink.rdbuf());
    std::string line;
    while (std::getline(std::cin, line)) {
        vs::KV kv(line);
        std::string op = kv.str("_op"), solver = kv.str("solver");
        std::string out;
        try {
            if (op == "run" && solver == "pantr")
                out = vs::run_pantr(kv);
            else
                out = "bad-op";
        } catch (std::exception &e) {
            out = std::string("exception ") + e.what();
        }
        real_out << out << '\n';
        sink.str("");
    }
    real_out.flush();
    std::cout.rdbuf(orig); // `sink` dies before std::cout does
}
