#include "solver_run.hpp"
#include <alpaqa/implementation/inner/panoc.tpp>
#include <alpaqa/implementation/inner/directions/panoc/structured-lbfgs.tpp>

namespace vs {
std::string run_panoc(const KV &kv) {
    return dispatch_direction<alpaqa::PANOCSolver>(kv, [&](alpaqa::PANOCParams<config_t> &p) {
        p.min_linesearch_coefficient           = kv.flt("minls", 1. / 256);
        p.linesearch_coefficient_update_factor = kv.flt("lsupd", 0.5);
        p.force_linesearch                     = kv.nat("force", 0) != 0;
        p.linesearch_strictness_factor         = kv.flt("beta", 0.95);
        p.linesearch_tolerance_factor          = kv.flt("lstol", 10 * 2.220446049250313e-16);
        p.update_direction_in_candidate        = kv.nat("updcand", 0) != 0;
        p.recompute_last_prox_step_after_stepsize_change = kv.nat("recomp", 0) != 0;
        p.eager_gradient_eval                  = kv.nat("eager", 0) != 0;
    });
}
} // namespace vs
