// C11 harness: the real `alpaqa::SteihaugCG<config_t>::solve` and `NewtonTRDirection::apply`.
//
// op lines
//   cg  <g:vec> <B:n*n doubles, row-major> <Δ> <tol_scale> <tol_scale_root> <tol_max> <max_iter_factor>
//       -> <value> <step:vec> <#hess_prod(d,Bd)> <#hess_prod(p,work_eval)> <z:vec> <r:vec> <d:vec> <dsqNeg>
//          (dsqNeg: ‖d‖² at the product `hess_prod(d, Bd)` that had d·Bd <= 0, `none` if there was none —
//           observed by the callback, for the monitor)
//   ntr <p:vec> <H:n*n> <nJ> <J…> <γ> <hessian_vec_factor> <radius> <tol_scale> <tol_scale_root> <tol_max> <max_iter_factor>
//       -> <value> <q:vec> <#eval_hess_ψ_prod> <qJ:vec>      | exception
// The Hessian product is a left fold per row (first product, then `acc + B(i,j) * v(j)`), which
// the Lean driver reproduces with `matVec` / `dot`.
#include "proto.hpp"
#include <alpaqa/accelerators/steihaugcg.hpp>
#include <alpaqa/config/config.hpp>
#include <alpaqa/inner/directions/pantr/newton-tr.hpp>
#include <alpaqa/problem/box-constr-problem.hpp>
#include <alpaqa/problem/type-erased-problem.hpp>

USING_ALPAQA_CONFIG(alpaqa::DefaultConfig);

struct Dense {
    long n = 0;
    std::vector<real_t> a; // row-major
    void read(vp::Toks &t, long n_) {
        n = n_;
        a.resize(size_t(n * n));
        for (auto &x : a)
            x = t.flt();
    }
    void mul(crvec v, rvec out) const {
        for (long i = 0; i < n; ++i) {
            real_t acc = 0;
            if (n > 0) {
                acc = a[size_t(i * n)] * v(0);
                for (long j = 1; j < n; ++j)
                    acc = acc + a[size_t(i * n + j)] * v(j);
            }
            out(i) = acc;
        }
    }
};

struct Prob : alpaqa::BoxConstrProblem<config_t> {
    using BoxConstrProblem::BoxConstrProblem;
    Dense H;
    std::vector<index_t> Jset;
    mutable long hess_calls = 0;
    real_t eval_f(crvec) const { return 0; }
    void eval_grad_f(crvec, rvec g) const { g.setZero(); }
    void eval_g(crvec, rvec) const {}
    void eval_grad_g_prod(crvec, crvec, rvec g) const { g.setZero(); }
    void eval_hess_ψ_prod(crvec, crvec, crvec, real_t, crvec v, rvec Hv) const {
        ++hess_calls;
        H.mul(v, Hv);
    }
    index_t eval_inactive_indices_res_lna(real_t, crvec, crvec, rindexvec J) const {
        for (size_t k = 0; k < Jset.size(); ++k)
            J(index_t(k)) = Jset[k];
        return index_t(Jset.size());
    }
};

int main() {
    std::string line;
    while (std::getline(std::cin, line)) {
        vp::Toks t(line);
        std::string op = t.tok();
        try {
            if (op == "cg") {
                vec g  = t.vec();
                long n = g.size();
                Dense B;
                B.read(t, n);
                real_t Δ = t.flt();
                alpaqa::SteihaugCGParams<config_t> params;
                params.tol_scale       = t.flt();
                params.tol_scale_root  = t.flt();
                params.tol_max         = t.flt();
                params.max_iter_factor = t.flt();
                alpaqa::SteihaugCG<config_t> cg{params};
                cg.resize(n + 1); // solve works on topRows(n); +1 keeps the workspace pointers distinct for n = 0
                vec step = vec::Constant(n, 12345.);
                long nBd = 0, nEval = 0, nOther = 0;
                bool negSeen = false;
                real_t dsqNeg = -1;
                auto hess_prod = [&](crvec v, rvec Bv) {
                    B.mul(v, Bv);
                    if (Bv.data() == cg.Bd.data()) {
                        ++nBd;
                        if (!negSeen && v.dot(Bv.topRows(n)) <= 0) {
                            negSeen = true;
                            dsqNeg  = v.squaredNorm();
                        }
                    } else if (Bv.data() == cg.work_eval.data())
                        ++nEval;
                    else
                        ++nOther;
                };
                real_t val = cg.solve(g, hess_prod, Δ, step);
                std::cout << vp::f2h(val) << ' ' << vp::fmtv(step) << ' ' << nBd << ' ' << nEval + 1000 * nOther
                          << ' ' << vp::fmtv(cg.z.topRows(n)) << ' ' << vp::fmtv(cg.r.topRows(n)) << ' ' << vp::fmtv(cg.d.topRows(n)) << ' '
                          << (negSeen ? vp::f2h(dsqNeg) : std::string("none")) << '\n';
            } else if (op == "ntr") {
                vec p  = t.vec();
                long n = p.size();
                Prob prob{n, 0};
                prob.H.read(t, n);
                long nJ = t.nat();
                for (long k = 0; k < nJ; ++k)
                    prob.Jset.push_back(index_t(t.nat()));
                real_t γ = t.flt();
                alpaqa::NewtonTRDirection<config_t>::Params params;
                params.direction.hessian_vec_factor = t.flt();
                real_t radius                       = t.flt();
                params.accelerator.tol_scale        = t.flt();
                params.accelerator.tol_scale_root   = t.flt();
                params.accelerator.tol_max          = t.flt();
                params.accelerator.max_iter_factor  = t.flt();
                alpaqa::TypeErasedProblem<config_t> te{&prob};
                alpaqa::NewtonTRDirection<config_t> dir{params};
                vec y(0), Σ(0), x = vec::Zero(n), xh = x + p, grad = vec::Zero(n);
                dir.initialize(te, y, Σ, γ, x, xh, p, grad);
                vec q      = vec::Constant(n, 12345.);
                real_t val = dir.apply(γ, x, xh, p, grad, radius, q);
                std::cout << vp::f2h(val) << ' ' << vp::fmtv(q) << ' ' << prob.hess_calls << ' '
                          << vp::fmtv(dir.qJ_sto.topRows(nJ)) << '\n';
            } else {
                std::cout << "bad-op\n";
            }
        } catch (std::exception &e) {
            std::cout << "exception\n";
        }
    }
}
