// FISTA solver-run harness entry point: one op line -> one output line.
#include "solver_common.hpp"
namespace vs {
std::string run_fista(const KV &kv);
std::string run_fista_chain(const KV &kv);
std::string run_fista_logit(const KV &kv);
} // namespace vs
int main() {
    std::string line;
    while (std::getline(std::cin, line)) {
        vs::KV kv(line);
        std::string op = kv.str("_op"), solver = kv.str("solver");
        std::string out;
        try {
            if (op == "run" && solver == "fista")
                out = vs::run_fista(kv);
            else if (op == "fista_chain")
                out = vs::run_fista_chain(kv);
            else if (op == "fista_logit")
                out = vs::run_fista_logit(kv);
            else
                out = "bad-op";
        } catch (std::exception &e) {
            out = std::string("exception ") + e.what();
        }
        std::cout << out << '\n';
    }
}
