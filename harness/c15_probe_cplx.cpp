// C15 compile probe: does the shipped `L1NormComplex::prox` instantiate at all (no shim)?
#include <alpaqa/config/config.hpp>
#include <alpaqa/functions/l1-norm.hpp>
#include <alpaqa/functions/prox.hpp>

USING_ALPAQA_CONFIG(alpaqa::DefaultConfig);

real_t probe_scalar(alpaqa::functions::L1NormComplex<config_t> &f, crmat in, rmat out) {
    return alpaqa::prox(f, in, out, 1.0);
}
real_t probe_vector(alpaqa::functions::L1NormComplex<config_t, vec> &f, crmat in, rmat out) {
    return alpaqa::prox(f, in, out, 1.0);
}
