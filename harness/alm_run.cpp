// ALM / stand-alone inner solver runs over every shipped solver stack (no tracing): C01.
//
// Keys beyond solver_common.hpp / the inner-solver keys of `common()`:
//   stack=panoc-|zerofpr-{lbfgs,slbfgs,anderson,noop,snewton,cnewton} | pantr-newtontr | fista
//     snewton = StructuredNewtonDirection (needs the dense ∇²ψ: hessfull=1), cnewton = ConvexNewtonDirection
//     (dense ∇²L, supports m = 0 only); pantr-newtontr with fd=0 uses the exact ∇²ψ·v (hessfull=1)
//   hessfull=1   the problem also provides eval_hess_ψ_prod, eval_hess_ψ, eval_hess_L (dense)
//   split=k      BoxConstrProblem::penalty_alm_split (rows < k: quadratic penalty only)
//   mode=kkt     no solve: compute_kkt_error at (x0, y0)
//   tol dtol almiter penfac initpen maxpen minpen maxmult inittol tolfac singlepen usesig   ALMParams
#include <alpaqa/inner/directions/panoc/convex-newton.hpp>
#include <alpaqa/inner/directions/panoc/structured-newton.hpp>
#include "solver_common.hpp"
#include <alpaqa/implementation/inner/panoc.tpp>
#include <alpaqa/implementation/inner/zerofpr.tpp>
#include <alpaqa/implementation/inner/directions/panoc/structured-lbfgs.tpp>
#include <alpaqa/implementation/outer/alm.tpp>
#include <alpaqa/inner/directions/panoc/anderson.hpp>
#include <alpaqa/inner/directions/panoc/lbfgs.hpp>
#include <alpaqa/inner/directions/panoc/noop.hpp>
#include <alpaqa/inner/directions/panoc/structured-lbfgs.hpp>
#include <alpaqa/inner/directions/pantr/newton-tr.hpp>
#include <alpaqa/implementation/inner/pantr.tpp>
#include <alpaqa/implementation/inner/fista.tpp>
#include <alpaqa/inner/fista.hpp>
#include <alpaqa/inner/pantr.hpp>
#include <alpaqa/inner/panoc.hpp>
#include <alpaqa/inner/zerofpr.hpp>
#include <alpaqa/outer/alm.hpp>
#include <alpaqa/problem/kkt-error.hpp>

using namespace vs;
namespace al = alpaqa;

// PolyProblem with the second-order oracles the Newton-type directions ask for (generalised Hessian of
//   ψ(x) = f(x) + ½ dist²_Σ(g(x) + Σ⁻¹y, D):  ∇²ψ v = ∇²L(x, ŷ) v + Σ_{j: ζ_j ∉ D_j} σ_j ∇g_j (∇g_jᵀ v),
//   ζ = g(x) + Σ⁻¹y, ŷ = Σ(ζ − Π_D ζ), ∇g_j = A_j + b_j x)
struct PolyProblemH : PolyProblem {
    bool full_hess;
    PolyProblemH(const KV &kv) : PolyProblem(kv), full_hess(kv.nat("hessfull", 0) != 0) {
        penalty_alm_split = (index_t)kv.nat("split", 0);
    }
    void eval_hess_ψ_prod(crvec x, crvec y, crvec Σ, real_t scale, crvec v, rvec Hv) const {
        vec gx(m), yh(m);
        eval_g(x, gx);
        std::vector<bool> act(m);
        for (index_t j = 0; j < m; ++j) {
            real_t ζ  = gx(j) + y(j) / Σ(j);
            bool below = ζ < D.lowerbound(j), above = ζ > D.upperbound(j);
            act[j]    = below || above;
            yh(j)     = below ? Σ(j) * (ζ - D.lowerbound(j)) : above ? Σ(j) * (ζ - D.upperbound(j)) : real_t(0);
        }
        eval_hess_L_prod(x, yh, scale, v, Hv);
        for (index_t j = 0; j < m; ++j) {
            if (!act[j])
                continue;
            real_t d = 0;
            for (index_t i = 0; i < n; ++i)
                d += (A(j * n + i) + b(j) * x(i)) * v(i);
            for (index_t i = 0; i < n; ++i)
                Hv(i) += Σ(j) * d * (A(j * n + i) + b(j) * x(i));
        }
    }
    template <class F>
    void dense(F &&prod, rvec H_values) const { // column-major n×n from n products with unit vectors
        vec unit = vec::Zero(n), col(n);
        for (index_t k = 0; k < n; ++k) {
            unit(k) = 1;
            prod(unit, col);
            for (index_t i = 0; i < n; ++i)
                H_values(k * n + i) = col(i);
            unit(k) = 0;
        }
    }
    void eval_hess_ψ(crvec x, crvec y, crvec Σ, real_t scale, rvec H_values) const {
        dense([&](crvec v, rvec Hv) { eval_hess_ψ_prod(x, y, Σ, scale, v, Hv); }, H_values);
    }
    void eval_hess_L(crvec x, crvec y, real_t scale, rvec H_values) const {
        vec y0 = vec::Zero(m);
        dense([&](crvec v, rvec Hv) { eval_hess_L_prod(x, y.size() == m ? y : crvec{y0}, scale, v, Hv); },
              H_values);
    }
    bool provides_eval_hess_ψ_prod() const { return full_hess; }
    bool provides_eval_hess_ψ() const { return full_hess; }
    bool provides_eval_hess_L() const { return full_hess; }
    std::string get_name() const { return "PolyProblemH"; }
};

template <class P>
void common(P &p, const KV &kv) {
    p.max_iter        = (unsigned)kv.nat("maxiter", 2000);
    p.stop_crit       = static_cast<al::PANOCStopCrit>(kv.nat("crit", 0));
    p.Lipschitz.L_0   = kv.flt("L0", 0);
    p.max_no_progress = (unsigned)kv.nat("maxnp", 10);
    if (kv.has("Lmin"))
        p.L_min = kv.flt("Lmin");
    if (kv.has("Lmax"))
        p.L_max = kv.flt("Lmax");
    // non-default switches of the line-search solvers (absent keys keep the library defaults)
    if constexpr (requires { p.eager_gradient_eval; })
        if (kv.has("eager"))
            p.eager_gradient_eval = kv.nat("eager") != 0;
    if constexpr (requires { p.recompute_last_prox_step_after_stepsize_change; })
        if (kv.has("recomp"))
            p.recompute_last_prox_step_after_stepsize_change = kv.nat("recomp") != 0;
    if constexpr (requires { p.force_linesearch; })
        if (kv.has("force"))
            p.force_linesearch = kv.nat("force") != 0;
    if constexpr (requires { p.update_direction_in_candidate; })
        if (kv.has("updcand"))
            p.update_direction_in_candidate = kv.nat("updcand") != 0;
    if constexpr (requires { p.update_direction_from_prox_step; })
        if (kv.has("updprox"))
            p.update_direction_from_prox_step = kv.nat("updprox") != 0;
}

// A problem that supplies its OWN fused ψ / ∇ψ evaluations and treats the work vectors as what the
// interface says they are: scratch space (filled with recognisable garbage on return).  A solver that reads
// ŷ out of `work_m` afterwards is exposed.
struct PolyProblemS : PolyProblemH {
    using PolyProblemH::PolyProblemH;
    real_t eval_ψ_grad_ψ(crvec x, crvec y, crvec Σ, rvec grad_ψ, rvec work_n, rvec work_m) const {
        const PolyProblemH &base = *this;
        al::TypeErasedProblem<config_t> te{const_cast<PolyProblemH *>(&base)};
        vec ŷ(m);
        real_t ψ = te.eval_ψ(x, y, Σ, ŷ);
        te.eval_grad_L(x, ŷ, grad_ψ, work_n);
        work_m.setConstant(real_t(777));
        work_n.setConstant(real_t(-555));
        return ψ;
    }
    void eval_grad_ψ(crvec x, crvec y, crvec Σ, rvec grad_ψ, rvec work_n, rvec work_m) const {
        (void)eval_ψ_grad_ψ(x, y, Σ, grad_ψ, work_n, work_m);
    }
};

template <class Inner>
std::string run_stack(const KV &kv, Inner &&inner) {
    using InnerT = std::remove_cvref_t<Inner>;
    PolyProblemH poly{kv};
    PolyProblemS polys{kv};
    al::TypeErasedProblem<config_t> te = kv.nat("wmscratch", 0) != 0 ? al::TypeErasedProblem<config_t>{&polys}
                                                                     : al::TypeErasedProblem<config_t>{&poly};
    vec x = kv.vecv("x0"), y = kv.vecv("y0");
    std::string out;
    if (kv.str("mode", "alm") == "alm") {
        typename al::ALMSolver<InnerT>::Params ap;
        ap.tolerance      = kv.flt("tol", 1e-8);
        ap.dual_tolerance = kv.flt("dtol", 1e-8);
        ap.max_iter       = (unsigned)kv.nat("almiter", 100);
        if (kv.has("penfac"))
            ap.penalty_update_factor = kv.flt("penfac");
        if (kv.has("initpen"))
            ap.initial_penalty = kv.flt("initpen");
        if (kv.has("maxpen"))
            ap.max_penalty = kv.flt("maxpen");
        if (kv.has("maxmult"))
            ap.max_multiplier = kv.flt("maxmult");
        if (kv.has("inittol"))
            ap.initial_tolerance = kv.flt("inittol");
        if (kv.has("tolfac"))
            ap.tolerance_update_factor = kv.flt("tolfac");
        if (kv.has("minpen"))
            ap.min_penalty = kv.flt("minpen");
        ap.single_penalty_factor = kv.nat("singlepen", 0) != 0;
        al::ALMSolver<InnerT> alm{ap, std::forward<Inner>(inner)};
        std::optional<vec> Σ;
        vec Σv = kv.vecv("Sig");
        typename al::ALMSolver<InnerT>::Stats s;
        if (Σv.size() > 0 && kv.nat("usesig", 0))
            s = alm(te, x, y, Σv);
        else
            s = alm(te, x, y);
        out = "A " + status_name(s.status) + ' ' + std::to_string(s.outer_iterations) + ' ' + vp::f2h(s.ε) + ' ' +
              vp::f2h(s.δ) + ' ' + std::to_string(s.inner.iterations) + ' ' +
              std::to_string(s.inner_convergence_failures);
    } else {
        vec Σ = kv.vecv("Sig"), e(poly.m);
        al::InnerSolveOptions<config_t> opts;
        opts.tolerance = kv.flt("tol", 1e-8);
        opts.check     = false;
        auto s = inner(te, opts, x, y, Σ, e);
        out    = "A " + status_name(s.status) + " 1 " + vp::f2h(s.ε) + ' ' + vp::f2h(0) + ' ' +
              std::to_string(s.iterations) + " 0";
    }
    auto k = al::compute_kkt_error(te, x, y);
    out += " ; X " + vp::fmtv(x) + " ; Y " + vp::fmtv(y) + " ; K " + vp::f2h(k.stationarity) + ' ' +
           vp::f2h(k.constr_violation) + ' ' + vp::f2h(k.complementarity) + ' ' + vp::f2h(k.bounds_violation);
    return out;
}

// mode=kkt: no solve — alpaqa::compute_kkt_error at the given (x0, y0) (the utility is a pure function)
std::string kkt_only(const KV &kv) {
    PolyProblemH poly{kv};
    al::TypeErasedProblem<config_t> te{&poly};
    vec x = kv.vecv("x0"), y = kv.vecv("y0");
    auto k = al::compute_kkt_error(te, x, y);
    return "A Busy 0 " + vp::f2h(0) + ' ' + vp::f2h(0) + " 0 0 ; X " + vp::fmtv(x) + " ; Y " + vp::fmtv(y) + " ; K " +
           vp::f2h(k.stationarity) + ' ' + vp::f2h(k.constr_violation) + ' ' + vp::f2h(k.complementarity) + ' ' +
           vp::f2h(k.bounds_violation);
}

std::string dispatch(const KV &kv) {
    if (kv.str("mode", "alm") == "kkt")
        return kkt_only(kv);
    std::string st = kv.str("stack", "panoc-lbfgs");
    unsigned mem   = (unsigned)kv.nat("mem", 10);
    auto lb = [&] { al::LBFGSParams<config_t> p; p.memory = mem; return p; };
    auto an = [&] { al::AndersonAccelParams<config_t> p; p.memory = mem; return p; };
    if (st.rfind("panoc-", 0) == 0) {
        al::PANOCParams<config_t> p;
        common(p, kv);
        if (st == "panoc-lbfgs")
            return run_stack(kv, al::PANOCSolver<al::LBFGSDirection<config_t>>{p, {lb()}});
        if (st == "panoc-slbfgs")
            return run_stack(kv, al::PANOCSolver<al::StructuredLBFGSDirection<config_t>>{p, {lb()}});
        if (st == "panoc-anderson")
            return run_stack(kv, al::PANOCSolver<al::AndersonDirection<config_t>>{p, {an()}});
        if (st == "panoc-noop")
            return run_stack(kv, al::PANOCSolver<al::NoopDirection<config_t>>{p, {}});
        if (st == "panoc-snewton")
            return run_stack(kv, al::PANOCSolver<al::StructuredNewtonDirection<config_t>>{p});
        if (st == "panoc-cnewton")
            return run_stack(kv, al::PANOCSolver<al::ConvexNewtonDirection<config_t>>{p});
    } else if (st.rfind("zerofpr-", 0) == 0) {
        al::ZeroFPRParams<config_t> p;
        common(p, kv);
        if (st == "zerofpr-lbfgs")
            return run_stack(kv, al::ZeroFPRSolver<al::LBFGSDirection<config_t>>{p, {lb()}});
        if (st == "zerofpr-slbfgs")
            return run_stack(kv, al::ZeroFPRSolver<al::StructuredLBFGSDirection<config_t>>{p, {lb()}});
        if (st == "zerofpr-anderson")
            return run_stack(kv, al::ZeroFPRSolver<al::AndersonDirection<config_t>>{p, {an()}});
        if (st == "zerofpr-noop")
            return run_stack(kv, al::ZeroFPRSolver<al::NoopDirection<config_t>>{p, {}});
        if (st == "zerofpr-snewton")
            return run_stack(kv, al::ZeroFPRSolver<al::StructuredNewtonDirection<config_t>>{p});
        if (st == "zerofpr-cnewton")
            return run_stack(kv, al::ZeroFPRSolver<al::ConvexNewtonDirection<config_t>>{p});
    } else if (st == "pantr-newtontr") {
        al::PANTRParams<config_t> p;
        common(p, kv);
        using D = al::NewtonTRDirection<config_t>;
        typename D::DirectionParams dp;
        dp.finite_diff = kv.nat("fd", 1) != 0;
        return run_stack(kv, al::PANTRSolver<D>{p, D{{}, dp}});
    } else if (st == "fista") {
        al::FISTAParams<config_t> p;
        common(p, kv);
        return run_stack(kv, al::FISTASolver<config_t>{p});
    }
    return "bad-stack";
}

int main() {
    // solvers print diagnostics to std::cout (`*os`): keep the protocol stream separate
    std::ostream real_out(std::cout.rdbuf());
    std::ostringstream sink;
    std::cout.rdbuf(sink.rdbuf());
    std::string line;
    while (std::getline(std::cin, line)) {
        KV kv(line);
        std::string out;
        try {
            out = dispatch(kv);
        } catch (std::exception &e) {
            out = std::string("exception ") + e.what();
        }
        real_out << out << '\n';
        sink.str("");
    }
}
