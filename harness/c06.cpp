// C06 harness: the real status chain, stopping-criterion formulas and requires-grad table.
#include "proto.hpp"
#include <alpaqa/config/config.hpp>
#include <alpaqa/implementation/inner/panoc-helpers.tpp>
#include <alpaqa/inner/panoc.hpp>
#include <alpaqa/problem/box-constr-problem.hpp>
#include <alpaqa/problem/type-erased-problem.hpp>
#include <chrono>

USING_ALPAQA_CONFIG(alpaqa::DefaultConfig);
using Helpers = alpaqa::detail::PANOCHelpers<config_t>;
using Box     = alpaqa::Box<config_t>;

struct P : alpaqa::BoxConstrProblem<config_t> {
    using BoxConstrProblem::BoxConstrProblem;
    real_t eval_f(crvec) const { return 0; }
    void eval_grad_f(crvec, rvec g) const { g.setZero(); }
    void eval_g(crvec, rvec) const {}
    void eval_grad_g_prod(crvec, crvec, rvec g) const { g.setZero(); }
};

int main() {
    std::string line;
    while (std::getline(std::cin, line)) {
        vp::Toks t(line);
        std::string op = t.tok();
        try {
            if (op == "chain") {
                real_t tol = t.flt();
                unsigned max_iter = (unsigned)t.nat(), max_np = (unsigned)t.nat(), k = (unsigned)t.nat();
                real_t eps  = t.flt();
                unsigned np = (unsigned)t.nat();
                bool oot = t.boolean(), intr = t.boolean();
                alpaqa::PANOCParams<config_t> params;
                params.max_iter        = max_iter;
                params.max_no_progress = max_np;
                params.max_time        = std::chrono::seconds(10);
                alpaqa::InnerSolveOptions<config_t> opts;
                opts.tolerance = tol;
                alpaqa::AtomicStopSignal sig;
                if (intr)
                    sig.stop();
                auto elapsed = oot ? std::chrono::seconds(11) : std::chrono::seconds(1);
                auto st = Helpers::check_all_stop_conditions(params, opts, elapsed, k, sig, eps, np);
                std::cout << enum_name(st) << '\n';
            } else if (op == "crit") {
                int ci   = (int)t.nat();
                real_t γ = t.flt();
                vec p = t.vec(), x = t.vec(), xh = t.vec(), yh = t.vec(), g = t.vec(), gh = t.vec(),
                    lb = t.vec(), ub = t.vec();
                P prob{Box::from_lower_upper(lb, ub), Box{yh.size()}};
                alpaqa::TypeErasedProblem<config_t> te{&prob};
                vec w1(x.size()), w2(x.size());
                real_t e = Helpers::calc_error_stop_crit(te, static_cast<alpaqa::PANOCStopCrit>(ci), p, γ,
                                                         x, xh, yh, g, gh, w1, w2);
                std::cout << vp::f2h(e) << '\n';
            } else if (op == "reqgrad") {
                int ci = (int)t.nat();
                std::cout << (Helpers::stop_crit_requires_grad_ψx̂(static_cast<alpaqa::PANOCStopCrit>(ci)) ? 1 : 0)
                          << '\n';
            } else {
                std::cout << "bad-op\n";
            }
        } catch (std::exception &e) {
            std::cout << "exception\n";
        }
    }
}
