// PANTR instantiation of the solver-run harness: the real `PANTRSolver` (pantr.tpp from the working
// tree) over the traced real `NewtonTRDirection` (Steihaug CG, Hessian-vector products of the
// problem or finite differences) or the adversarial trust-region provider.
#include "solver_pantr.hpp"
#include <alpaqa/implementation/inner/pantr.tpp>

namespace vs {
std::string run_pantr(const KV &kv) {
    std::string d = kv.str("dir", "newtontr");
    if (d == "newtontr") {
        using D = alpaqa::NewtonTRDirection<config_t>;
        return run_pantr_with<TraceTRDirection<D>>(kv, [&](Trace *tr) {
            typename D::AcceleratorParams ap;
            ap.tol_scale       = kv.flt("cgtol", 1);
            ap.tol_scale_root  = kv.flt("cgroot", 0.5);
            ap.max_iter_factor = kv.flt("cgiter", 1);
            typename D::DirectionParams dp;
            dp.hessian_vec_factor   = kv.flt("hvf", 1);
            dp.finite_diff          = kv.nat("fd", 0) != 0;
            dp.finite_diff_stepsize = kv.flt("fdstep", 1.4901161193847656e-08);
            return TraceTRDirection<D>{D{ap, dp}, tr};
        });
    } else if (d == "advtr") {
        using D = AdvTRDirection;
        return run_pantr_with<TraceTRDirection<D>>(kv, [&](Trace *tr) {
            return TraceTRDirection<D>{D{(uint64_t)kv.nat("advseed", 1), kv.nat("advinit", 0) != 0}, tr};
        });
    }
    return "bad-direction";
}
} // namespace vs
