/* C04: a hand-written module in the style of CasADi's C code generator (same exported C API as
 * /repo/test/outer/rosenbrock_functions_test.c), loaded through alpaqa::CasADiProblem by
 * harness/c04.cpp.  It provides every function python/alpaqa/casadi_generator emits for
 * second_order="full", plus `grad_g_prod` (which CasADiProblem loads when present), for the
 * polynomial problem family of checks/c04.py with n = 3 and m = 2 (so that a vector Σ, the order of
 * zl / zu and the index of y matter), or with -DPOLY_M0 for m = 0 (the generator's m = 0 layout:
 * `g` has no output, no `grad_L`, no `psi`).
 *
 *   p = [c0 c1 c2 | q00 q01 q11 q12 q22 | t3 | a00 a01 a11 a12 | b0 b1 | h00 h01 h11 h12]   (19)
 *   f(x)  = cᵀx + ½(q00 x0² + q11 x1² + q22 x2²) + q01 x0 x1 + q12 x1 x2 + t3 x0³
 *   g0(x) = b0 + a00 x0 + a01 x1 + ½(h00 x0² + h01 x1²)
 *   g1(x) = b1 + a11 x1 + a12 x2 + ½(h11 x1² + h12 x2²)
 * ∇²f, ∇²L and ∇²ψ have a structural zero at (0,2): they are returned as upper-triangular CSC
 * patterns (5 of 9 entries), the Jacobian as a general CSC pattern (4 of 6 entries), as the
 * generator does for sparse results (`if not H.is_dense(): H = triu(H)`).
 * The argument orders are the documented ones of casadi_generator/__init__.py.
 * Every function keeps its intermediate results in the work vector `w` (sz_w > 0), which
 * CasADiProblem allocates once per function object and reuses for every call.
 */
#ifdef __cplusplus
extern "C" {
#endif

#include <math.h>

#ifndef casadi_real
#define casadi_real double
#endif
#ifndef casadi_int
#define casadi_int long long int
#endif
#ifndef CASADI_SYMBOL_EXPORT
#define CASADI_SYMBOL_EXPORT __attribute__((visibility("default")))
#endif

#define NX 3
#define NP 19
#ifdef POLY_M0
#define NM 0
#else
#define NM 2
#endif

/* sparsity patterns, CasADi's compressed column storage: nrow, ncol, colind[ncol+1], row[nnz] */
static const casadi_int s_x[7]   = {3, 1, 0, 3, 0, 1, 2};             /* x, v, grad: 3x1 */
static const casadi_int s_p[23]  = {19, 1, 0, 19, 0, 1, 2, 3, 4, 5, 6, 7, 8, 9, 10, 11, 12, 13, 14, 15, 16, 17, 18};
static const casadi_int s_1[5]   = {1, 1, 0, 1, 0};                   /* scalar */
#ifdef POLY_M0
static const casadi_int s_m[4]   = {0, 1, 0, 0};                      /* y, Σ, zl, zu: 0x1 */
static const casadi_int s_J[6]   = {0, 3, 0, 0, 0, 0};                /* 0x3 */
#else
static const casadi_int s_m[6]   = {2, 1, 0, 2, 0, 1};                /* y, Σ, zl, zu, g, ŷ: 2x1 */
static const casadi_int s_J[10]  = {2, 3, 0, 1, 3, 4, 0, 0, 1, 1};    /* 2x3, 4 nnz */
#endif
static const casadi_int s_H[11]  = {3, 3, 0, 1, 3, 5, 0, 0, 1, 1, 2}; /* 3x3 upper, 5 nnz */

#define P_C(i) p[(i)]
#define P_Q00 p[3]
#define P_Q01 p[4]
#define P_Q11 p[5]
#define P_Q12 p[6]
#define P_Q22 p[7]
#define P_T3 p[8]
#define P_A00 p[9]
#define P_A01 p[10]
#define P_A11 p[11]
#define P_A12 p[12]
#define P_B0 p[13]
#define P_B1 p[14]
#define P_H00 p[15]
#define P_H01 p[16]
#define P_H11 p[17]
#define P_H12 p[18]

static casadi_real k_f(const casadi_real *x, const casadi_real *p) {
    casadi_real a = P_C(0) * x[0];
    a = a + P_C(1) * x[1];
    a = a + P_C(2) * x[2];
    a = a + 0.5 * (P_Q00 * (x[0] * x[0]));
    a = a + 0.5 * (P_Q11 * (x[1] * x[1]));
    a = a + 0.5 * (P_Q22 * (x[2] * x[2]));
    a = a + P_Q01 * (x[0] * x[1]);
    a = a + P_Q12 * (x[1] * x[2]);
    a = a + P_T3 * (x[0] * x[0] * x[0]);
    return a;
}
static void k_grad_f(const casadi_real *x, const casadi_real *p, casadi_real *o) {
    o[0] = P_C(0) + P_Q00 * x[0] + P_Q01 * x[1] + 3 * P_T3 * (x[0] * x[0]);
    o[1] = P_C(1) + P_Q01 * x[0] + P_Q11 * x[1] + P_Q12 * x[2];
    o[2] = P_C(2) + P_Q12 * x[1] + P_Q22 * x[2];
}
/* upper-triangular values of s ∇²f in the order of s_H: (0,0) (0,1) (1,1) (1,2) (2,2) */
static void k_hess_f(const casadi_real *x, const casadi_real *p, casadi_real s, casadi_real *o) {
    o[0] = s * (P_Q00 + 6 * P_T3 * x[0]);
    o[1] = s * P_Q01;
    o[2] = s * P_Q11;
    o[3] = s * P_Q12;
    o[4] = s * P_Q22;
}
#ifndef POLY_M0
static void k_g(const casadi_real *x, const casadi_real *p, casadi_real *o) {
    o[0] = P_B0 + P_A00 * x[0] + P_A01 * x[1] + 0.5 * (P_H00 * (x[0] * x[0]) + P_H01 * (x[1] * x[1]));
    o[1] = P_B1 + P_A11 * x[1] + P_A12 * x[2] + 0.5 * (P_H11 * (x[1] * x[1]) + P_H12 * (x[2] * x[2]));
}
/* nonzeros of the Jacobian in the order of s_J: (0,0) (0,1) (1,1) (1,2) */
static void k_jac(const casadi_real *x, const casadi_real *p, casadi_real *o) {
    o[0] = P_A00 + P_H00 * x[0];
    o[1] = P_A01 + P_H01 * x[1];
    o[2] = P_A11 + P_H11 * x[1];
    o[3] = P_A12 + P_H12 * x[2];
}
static void k_jac_T_prod(const casadi_real *J, const casadi_real *y, casadi_real *o) {
    o[0] = J[0] * y[0];
    o[1] = J[1] * y[0] + J[2] * y[1];
    o[2] = J[3] * y[1];
}
/* ζ = g + y/Σ, ẑ = fmax(zl, fmin(ζ, zu)), d = ζ − ẑ, ŷ = Σ d (documented formulas) */
static void k_yhat(const casadi_real *g, const casadi_real *y, const casadi_real *S, const casadi_real *zl,
                   const casadi_real *zu, casadi_real *d, casadi_real *yh) {
    int j;
    for (j = 0; j < NM; ++j) {
        casadi_real zeta = g[j] + y[j] / S[j];
        casadi_real zhat = fmax(zl[j], fmin(zeta, zu[j]));
        d[j]  = zeta - zhat;
        yh[j] = S[j] * d[j];
    }
}
/* adds Σ_j w_j ∇²g_j to the upper-triangular values */
static void k_add_hess_g(const casadi_real *p, const casadi_real *w, casadi_real *o) {
    o[0] = o[0] + w[0] * P_H00;
    o[2] = o[2] + (w[0] * P_H01 + w[1] * P_H11);
    o[4] = o[4] + w[1] * P_H12;
}
/* adds Jᵀ diag(a) J to the upper-triangular values */
static void k_add_gn(const casadi_real *J, const casadi_real *a, casadi_real *o) {
    o[0] = o[0] + J[0] * a[0] * J[0];
    o[1] = o[1] + J[0] * a[0] * J[1];
    o[2] = o[2] + (J[1] * a[0] * J[1] + J[2] * a[1] * J[2]);
    o[3] = o[3] + J[2] * a[1] * J[3];
    o[4] = o[4] + J[3] * a[1] * J[3];
}
#endif
/* H v for the upper-triangular values of a symmetric matrix with pattern s_H */
static void k_sym_prod(const casadi_real *H, const casadi_real *v, casadi_real *o) {
    o[0] = H[0] * v[0] + H[1] * v[1];
    o[1] = H[1] * v[0] + H[2] * v[1] + H[3] * v[2];
    o[2] = H[3] * v[1] + H[4] * v[2];
}

/* ---------------------------------------------------------------- the exported functions */

#define BOILERPLATE(NAME, NIN, NOUT, SZW)                                                          \
    CASADI_SYMBOL_EXPORT int NAME##_alloc_mem(void) { return 0; }                                  \
    CASADI_SYMBOL_EXPORT int NAME##_init_mem(int mem) { return 0; }                                \
    CASADI_SYMBOL_EXPORT void NAME##_free_mem(int mem) {}                                          \
    CASADI_SYMBOL_EXPORT int NAME##_checkout(void) { return 0; }                                   \
    CASADI_SYMBOL_EXPORT void NAME##_release(int mem) {}                                           \
    CASADI_SYMBOL_EXPORT void NAME##_incref(void) {}                                               \
    CASADI_SYMBOL_EXPORT void NAME##_decref(void) {}                                               \
    CASADI_SYMBOL_EXPORT casadi_int NAME##_n_in(void) { return NIN; }                              \
    CASADI_SYMBOL_EXPORT casadi_int NAME##_n_out(void) { return NOUT; }                            \
    CASADI_SYMBOL_EXPORT casadi_real NAME##_default_in(casadi_int i) { return 0; }                 \
    CASADI_SYMBOL_EXPORT const char *NAME##_name_in(casadi_int i) {                                \
        return i >= 0 && i < NIN ? NAME##_names_in[i] : 0;                                         \
    }                                                                                              \
    CASADI_SYMBOL_EXPORT const char *NAME##_name_out(casadi_int i) {                               \
        return i >= 0 && i < NOUT ? NAME##_names_out[i] : 0;                                       \
    }                                                                                              \
    CASADI_SYMBOL_EXPORT const casadi_int *NAME##_sparsity_in(casadi_int i) {                      \
        return i >= 0 && i < NIN ? NAME##_sp_in[i] : 0;                                            \
    }                                                                                              \
    CASADI_SYMBOL_EXPORT const casadi_int *NAME##_sparsity_out(casadi_int i) {                     \
        return i >= 0 && i < NOUT ? NAME##_sp_out[i] : 0;                                          \
    }                                                                                              \
    CASADI_SYMBOL_EXPORT int NAME##_work(casadi_int *sz_arg, casadi_int *sz_res, casadi_int *sz_iw, \
                                         casadi_int *sz_w) {                                       \
        if (sz_arg) *sz_arg = NIN;                                                                 \
        if (sz_res) *sz_res = NOUT;                                                                \
        if (sz_iw) *sz_iw = 0;                                                                     \
        if (sz_w) *sz_w = SZW;                                                                     \
        return 0;                                                                                  \
    }

/* f:(x[3],p[19])->(f) */
static const char *f_names_in[]          = {"x", "p"};
static const char *f_names_out[]         = {"f"};
static const casadi_int *f_sp_in[]       = {s_x, s_p};
static const casadi_int *f_sp_out[]      = {s_1};
CASADI_SYMBOL_EXPORT int f(const casadi_real **arg, casadi_real **res, casadi_int *iw, casadi_real *w, int mem) {
    w[0] = k_f(arg[0], arg[1]);
    if (res[0] != 0) res[0][0] = w[0];
    return 0;
}
BOILERPLATE(f, 2, 1, 1)

/* f_grad_f:(x[3],p[19])->(f,grad_f[3]) */
static const char *f_grad_f_names_in[]     = {"x", "p"};
static const char *f_grad_f_names_out[]    = {"f", "grad_f"};
static const casadi_int *f_grad_f_sp_in[]  = {s_x, s_p};
static const casadi_int *f_grad_f_sp_out[] = {s_1, s_x};
CASADI_SYMBOL_EXPORT int f_grad_f(const casadi_real **arg, casadi_real **res, casadi_int *iw, casadi_real *w,
                                  int mem) {
    int i;
    w[0] = k_f(arg[0], arg[1]);
    k_grad_f(arg[0], arg[1], w + 1);
    if (res[0] != 0) res[0][0] = w[0];
    if (res[1] != 0) for (i = 0; i < NX; ++i) res[1][i] = w[1 + i];
    return 0;
}
BOILERPLATE(f_grad_f, 2, 2, 4)

#ifdef POLY_M0
/* g:(x[3],p[19])->() */
static const char *g_names_in[]       = {"x", "p"};
static const char *g_names_out[]      = {0};
static const casadi_int *g_sp_in[]    = {s_x, s_p};
static const casadi_int *g_sp_out[]   = {0};
CASADI_SYMBOL_EXPORT int g(const casadi_real **arg, casadi_real **res, casadi_int *iw, casadi_real *w, int mem) {
    return 0;
}
BOILERPLATE(g, 2, 0, 0)
#else
/* g:(x[3],p[19])->(g[2]) */
static const char *g_names_in[]       = {"x", "p"};
static const char *g_names_out[]      = {"g"};
static const casadi_int *g_sp_in[]    = {s_x, s_p};
static const casadi_int *g_sp_out[]   = {s_m};
CASADI_SYMBOL_EXPORT int g(const casadi_real **arg, casadi_real **res, casadi_int *iw, casadi_real *w, int mem) {
    k_g(arg[0], arg[1], w);
    if (res[0] != 0) { res[0][0] = w[0]; res[0][1] = w[1]; }
    return 0;
}
BOILERPLATE(g, 2, 1, 2)

/* grad_g_prod:(x[3],p[19],y[2])->(grad_g_prod[3]) */
static const char *grad_g_prod_names_in[]     = {"x", "p", "y"};
static const char *grad_g_prod_names_out[]    = {"grad_g_prod"};
static const casadi_int *grad_g_prod_sp_in[]  = {s_x, s_p, s_m};
static const casadi_int *grad_g_prod_sp_out[] = {s_x};
CASADI_SYMBOL_EXPORT int grad_g_prod(const casadi_real **arg, casadi_real **res, casadi_int *iw, casadi_real *w,
                                     int mem) {
    k_jac(arg[0], arg[1], w);
    if (res[0] != 0) k_jac_T_prod(w, arg[2], res[0]);
    return 0;
}
BOILERPLATE(grad_g_prod, 3, 1, 4)

/* grad_L:(x[3],p[19],y[2])->(grad_L[3]) */
static const char *grad_L_names_in[]     = {"x", "p", "y"};
static const char *grad_L_names_out[]    = {"grad_L"};
static const casadi_int *grad_L_sp_in[]  = {s_x, s_p, s_m};
static const casadi_int *grad_L_sp_out[] = {s_x};
CASADI_SYMBOL_EXPORT int grad_L(const casadi_real **arg, casadi_real **res, casadi_int *iw, casadi_real *w,
                                int mem) {
    int i;
    k_jac(arg[0], arg[1], w);
    k_jac_T_prod(w, arg[2], w + 4);
    k_grad_f(arg[0], arg[1], w + 7);
    if (res[0] != 0) for (i = 0; i < NX; ++i) res[0][i] = w[7 + i] + w[4 + i];
    return 0;
}
BOILERPLATE(grad_L, 3, 1, 10)

/* psi:(x[3],p[19],y[2],Σ[2],zl[2],zu[2])->(ψ,ŷ[2]) */
static const char *psi_names_in[]     = {"x", "p", "y", "\xce\xa3", "zl", "zu"};
static const char *psi_names_out[]    = {"\xcf\x88", "y\xcc\x82"};
static const casadi_int *psi_sp_in[]  = {s_x, s_p, s_m, s_m, s_m, s_m};
static const casadi_int *psi_sp_out[] = {s_1, s_m};
CASADI_SYMBOL_EXPORT int psi(const casadi_real **arg, casadi_real **res, casadi_int *iw, casadi_real *w, int mem) {
    /* w: g[2] d[2] ŷ[2] */
    k_g(arg[0], arg[1], w);
    k_yhat(w, arg[2], arg[3], arg[4], arg[5], w + 2, w + 4);
    if (res[0] != 0) res[0][0] = k_f(arg[0], arg[1]) + 0.5 * (w[4] * w[2] + w[5] * w[3]);
    if (res[1] != 0) { res[1][0] = w[4]; res[1][1] = w[5]; }
    return 0;
}
BOILERPLATE(psi, 6, 2, 6)
#endif

/* psi_grad_psi:(x[3],p[19],y[m],Σ[m],zl[m],zu[m])->(ψ,grad_ψ[3]) */
static const char *psi_grad_psi_names_in[]     = {"x", "p", "y", "\xce\xa3", "zl", "zu"};
static const char *psi_grad_psi_names_out[]    = {"\xcf\x88", "grad_\xcf\x88"};
static const casadi_int *psi_grad_psi_sp_in[]  = {s_x, s_p, s_m, s_m, s_m, s_m};
static const casadi_int *psi_grad_psi_sp_out[] = {s_1, s_x};
CASADI_SYMBOL_EXPORT int psi_grad_psi(const casadi_real **arg, casadi_real **res, casadi_int *iw, casadi_real *w,
                                      int mem) {
    int i;
#ifdef POLY_M0
    k_grad_f(arg[0], arg[1], w);
    if (res[0] != 0) res[0][0] = k_f(arg[0], arg[1]);
    if (res[1] != 0) for (i = 0; i < NX; ++i) res[1][i] = w[i];
#else
    /* w: g[2] d[2] ŷ[2] J[4] Jᵀŷ[3] ∇f[3] */
    k_g(arg[0], arg[1], w);
    k_yhat(w, arg[2], arg[3], arg[4], arg[5], w + 2, w + 4);
    k_jac(arg[0], arg[1], w + 6);
    k_jac_T_prod(w + 6, w + 4, w + 10);
    k_grad_f(arg[0], arg[1], w + 13);
    if (res[0] != 0) res[0][0] = k_f(arg[0], arg[1]) + 0.5 * (w[4] * w[2] + w[5] * w[3]);
    if (res[1] != 0) for (i = 0; i < NX; ++i) res[1][i] = w[13 + i] + w[10 + i];
#endif
    return 0;
}
BOILERPLATE(psi_grad_psi, 6, 2, 16)

/* jacobian_g:(x[3],p[19])->(jac_g[2x3,4nz]) */
static const char *jacobian_g_names_in[]     = {"x", "p"};
static const char *jacobian_g_names_out[]    = {"jac_g"};
static const casadi_int *jacobian_g_sp_in[]  = {s_x, s_p};
static const casadi_int *jacobian_g_sp_out[] = {s_J};
CASADI_SYMBOL_EXPORT int jacobian_g(const casadi_real **arg, casadi_real **res, casadi_int *iw, casadi_real *w,
                                    int mem) {
#ifndef POLY_M0
    int i;
    k_jac(arg[0], arg[1], w);
    if (res[0] != 0) for (i = 0; i < 4; ++i) res[0][i] = w[i];
#endif
    return 0;
}
BOILERPLATE(jacobian_g, 2, 1, 4)

/* hess_L:(x[3],p[19],y[m],s)->(hess_L[3x3,5nz]) */
static const char *hess_L_names_in[]     = {"x", "p", "y", "s"};
static const char *hess_L_names_out[]    = {"hess_L"};
static const casadi_int *hess_L_sp_in[]  = {s_x, s_p, s_m, s_1};
static const casadi_int *hess_L_sp_out[] = {s_H};
CASADI_SYMBOL_EXPORT int hess_L(const casadi_real **arg, casadi_real **res, casadi_int *iw, casadi_real *w,
                                int mem) {
    int i;
    k_hess_f(arg[0], arg[1], arg[3][0], w);
#ifndef POLY_M0
    k_add_hess_g(arg[1], arg[2], w);
#endif
    if (res[0] != 0) for (i = 0; i < 5; ++i) res[0][i] = w[i];
    return 0;
}
BOILERPLATE(hess_L, 4, 1, 5)

/* hess_L_prod:(x[3],p[19],y[m],s,v[3])->(hess_L_prod[3]) */
static const char *hess_L_prod_names_in[]     = {"x", "p", "y", "s", "v"};
static const char *hess_L_prod_names_out[]    = {"hess_L_prod"};
static const casadi_int *hess_L_prod_sp_in[]  = {s_x, s_p, s_m, s_1, s_x};
static const casadi_int *hess_L_prod_sp_out[] = {s_x};
CASADI_SYMBOL_EXPORT int hess_L_prod(const casadi_real **arg, casadi_real **res, casadi_int *iw, casadi_real *w,
                                     int mem) {
    k_hess_f(arg[0], arg[1], arg[3][0], w);
#ifndef POLY_M0
    k_add_hess_g(arg[1], arg[2], w);
#endif
    if (res[0] != 0) k_sym_prod(w, arg[4], res[0]);
    return 0;
}
BOILERPLATE(hess_L_prod, 5, 1, 5)

/* w: H[5] g[2] d[2] ŷ[2] J[4] a[2] */
static void k_hess_psi(const casadi_real **arg, casadi_real *w) {
    k_hess_f(arg[0], arg[1], arg[4][0], w);
#ifndef POLY_M0
    {
        int j;
        k_g(arg[0], arg[1], w + 5);
        k_yhat(w + 5, arg[2], arg[3], arg[5], arg[6], w + 7, w + 9);
        k_add_hess_g(arg[1], w + 9, w);
        k_jac(arg[0], arg[1], w + 11);
        for (j = 0; j < NM; ++j)
            w[15 + j] = (w[7 + j] != 0) ? arg[3][j] : 0;
        k_add_gn(w + 11, w + 15, w);
    }
#endif
}

/* hess_psi:(x[3],p[19],y[m],Σ[m],s,zl[m],zu[m])->(hess_psi[3x3,5nz]) */
static const char *hess_psi_names_in[]     = {"x", "p", "y", "\xce\xa3", "s", "zl", "zu"};
static const char *hess_psi_names_out[]    = {"hess_psi"};
static const casadi_int *hess_psi_sp_in[]  = {s_x, s_p, s_m, s_m, s_1, s_m, s_m};
static const casadi_int *hess_psi_sp_out[] = {s_H};
CASADI_SYMBOL_EXPORT int hess_psi(const casadi_real **arg, casadi_real **res, casadi_int *iw, casadi_real *w,
                                  int mem) {
    int i;
    k_hess_psi(arg, w);
    if (res[0] != 0) for (i = 0; i < 5; ++i) res[0][i] = w[i];
    return 0;
}
BOILERPLATE(hess_psi, 7, 1, 17)

/* hess_psi_prod:(x[3],p[19],y[m],Σ[m],s,zl[m],zu[m],v[3])->(hess_psi_prod[3]) */
static const char *hess_psi_prod_names_in[]     = {"x", "p", "y", "\xce\xa3", "s", "zl", "zu", "v"};
static const char *hess_psi_prod_names_out[]    = {"hess_psi_prod"};
static const casadi_int *hess_psi_prod_sp_in[]  = {s_x, s_p, s_m, s_m, s_1, s_m, s_m, s_x};
static const casadi_int *hess_psi_prod_sp_out[] = {s_x};
CASADI_SYMBOL_EXPORT int hess_psi_prod(const casadi_real **arg, casadi_real **res, casadi_int *iw, casadi_real *w,
                                       int mem) {
    k_hess_psi(arg, w);
    if (res[0] != 0) k_sym_prod(w, arg[7], res[0]);
    return 0;
}
BOILERPLATE(hess_psi_prod, 8, 1, 17)

#ifdef __cplusplus
}
#endif
