#pragma once

#define ALPAQA_VERSION_MAJOR 1
#define ALPAQA_VERSION_MINOR 0
#define ALPAQA_VERSION_PATCH 0
#define ALPAQA_VERSION_SUFFIX "a18"
#define ALPAQA_VERSION "1.0.0"
#define ALPAQA_VERSION_FULL "1.0.0a18"
#define ALPAQA_BUILD_TIME alpaqa_build_time
#define ALPAQA_COMMIT_HASH alpaqa_commit_hash

#include <alpaqa/export.h>
#ifdef __cplusplus
extern "C" {
#endif
extern ALPAQA_EXPORT const char *const alpaqa_build_time;
extern ALPAQA_EXPORT const char *const alpaqa_commit_hash;
#ifdef __cplusplus
}
#endif
