
#ifndef DL_LOADER_EXPORT_H
#define DL_LOADER_EXPORT_H

#ifdef DL_LOADER_STATIC_DEFINE
#  define DL_LOADER_EXPORT
#  define DL_LOADER_NO_EXPORT
#else
#  ifndef DL_LOADER_EXPORT
#    ifdef dl_loader_EXPORTS
        /* We are building this library */
#      define DL_LOADER_EXPORT 
#    else
        /* We are using this library */
#      define DL_LOADER_EXPORT 
#    endif
#  endif

#  ifndef DL_LOADER_NO_EXPORT
#    define DL_LOADER_NO_EXPORT 
#  endif
#endif

#ifndef DL_LOADER_DEPRECATED
#  define DL_LOADER_DEPRECATED __attribute__ ((__deprecated__))
#endif

#ifndef DL_LOADER_DEPRECATED_EXPORT
#  define DL_LOADER_DEPRECATED_EXPORT DL_LOADER_EXPORT DL_LOADER_DEPRECATED
#endif

#ifndef DL_LOADER_DEPRECATED_NO_EXPORT
#  define DL_LOADER_DEPRECATED_NO_EXPORT DL_LOADER_NO_EXPORT DL_LOADER_DEPRECATED
#endif

/* NOLINTNEXTLINE(readability-avoid-unconditional-preprocessor-if) */
#if 0 /* DEFINE_NO_DEPRECATED */
#  ifndef DL_LOADER_NO_DEPRECATED
#    define DL_LOADER_NO_DEPRECATED
#  endif
#endif

#endif /* DL_LOADER_EXPORT_H */
