
#ifndef ALPAQA_EXPORT_H
#define ALPAQA_EXPORT_H

#ifdef ALPAQA_STATIC_DEFINE
#  define ALPAQA_EXPORT
#  define ALPAQA_NO_EXPORT
#else
#  ifndef ALPAQA_EXPORT
#    ifdef alpaqa_EXPORTS
        /* We are building this library */
#      define ALPAQA_EXPORT 
#    else
        /* We are using this library */
#      define ALPAQA_EXPORT 
#    endif
#  endif

#  ifndef ALPAQA_NO_EXPORT
#    define ALPAQA_NO_EXPORT 
#  endif
#endif

#ifndef ALPAQA_DEPRECATED
#  define ALPAQA_DEPRECATED __attribute__ ((__deprecated__))
#endif

#ifndef ALPAQA_DEPRECATED_EXPORT
#  define ALPAQA_DEPRECATED_EXPORT ALPAQA_EXPORT ALPAQA_DEPRECATED
#endif

#ifndef ALPAQA_DEPRECATED_NO_EXPORT
#  define ALPAQA_DEPRECATED_NO_EXPORT ALPAQA_NO_EXPORT ALPAQA_DEPRECATED
#endif

/* NOLINTNEXTLINE(readability-avoid-unconditional-preprocessor-if) */
#if 0 /* DEFINE_NO_DEPRECATED */
#  ifndef ALPAQA_NO_DEPRECATED
#    define ALPAQA_NO_DEPRECATED
#  endif
#endif

#endif /* ALPAQA_EXPORT_H */
