
#ifndef CASADI_LOADER_EXPORT_H
#define CASADI_LOADER_EXPORT_H

#ifdef CASADI_LOADER_STATIC_DEFINE
#  define CASADI_LOADER_EXPORT
#  define CASADI_LOADER_NO_EXPORT
#else
#  ifndef CASADI_LOADER_EXPORT
#    ifdef casadi_loader_EXPORTS
        /* We are building this library */
#      define CASADI_LOADER_EXPORT 
#    else
        /* We are using this library */
#      define CASADI_LOADER_EXPORT 
#    endif
#  endif

#  ifndef CASADI_LOADER_NO_EXPORT
#    define CASADI_LOADER_NO_EXPORT 
#  endif
#endif

#ifndef CASADI_LOADER_DEPRECATED
#  define CASADI_LOADER_DEPRECATED __attribute__ ((__deprecated__))
#endif

#ifndef CASADI_LOADER_DEPRECATED_EXPORT
#  define CASADI_LOADER_DEPRECATED_EXPORT CASADI_LOADER_EXPORT CASADI_LOADER_DEPRECATED
#endif

#ifndef CASADI_LOADER_DEPRECATED_NO_EXPORT
#  define CASADI_LOADER_DEPRECATED_NO_EXPORT CASADI_LOADER_NO_EXPORT CASADI_LOADER_DEPRECATED
#endif

/* NOLINTNEXTLINE(readability-avoid-unconditional-preprocessor-if) */
#if 0 /* DEFINE_NO_DEPRECATED */
#  ifndef CASADI_LOADER_NO_DEPRECATED
#    define CASADI_LOADER_NO_DEPRECATED
#  endif
#endif

#endif /* CASADI_LOADER_EXPORT_H */
