// Shared by harness/dirs.cpp (op-sequence correspondence on the real direction providers) and
// harness/solvers_panoc_full.cpp (PANOC runs whose trace also records the problem calls made
// *inside* direction calls):
//   * DirsProblem  = PolyProblem + eval_grad_gi + eval_hess_ψ_prod (both optional),
//   * FullTraceProblem = TraceProblem's event log (same names, same ticks) plus, while a direction
//     call is active, `EV igradpsi / ihessL / ihesspsi / ig / igradgi` sections that are *not* ticks,
//   * dumps of the accelerator state inside the providers.
#pragma once
#include "solver_common.hpp"
#include <alpaqa/accelerators/internal/anderson-helpers.hpp>
#include <alpaqa/accelerators/internal/limited-memory-qr.hpp>
#include <alpaqa/accelerators/lbfgs.hpp>
#include <alpaqa/inner/directions/panoc-direction-update.hpp>
#include <alpaqa/inner/internal/panoc-helpers.hpp>
#include <optional>
#include <stdexcept>
#include <variant>
// The providers keep their accelerators (and AndersonAccel its G / rₗₐₛₜ) private and have no
// accessor; the harness only *reads* them.  All dependencies are included above, so the macro
// affects nothing but the class bodies of AndersonAccel / AndersonDirection /
// StructuredLBFGSDirection.
#define private public
#include <alpaqa/accelerators/anderson.hpp>
#include <alpaqa/inner/directions/panoc/anderson.hpp>
#include <alpaqa/inner/directions/panoc/structured-lbfgs.hpp>
#undef private
#include <alpaqa/inner/directions/panoc/lbfgs.hpp>
#include <alpaqa/inner/directions/panoc/noop.hpp>

namespace vd {
USING_ALPAQA_CONFIG(alpaqa::DefaultConfig);
using vs::KV;
using vs::Trace;

// ---------------------------------------------------------------- problem
//  ∇g_i(x) = a_i + b_i x ;  ∇²ψ(x) v = ∇²L(x, ŷ) v + Σ_{i active} Σ_i ∇g_i (∇g_iᵀ v)
struct DirsProblem : vs::PolyProblem {
    bool with_grad_gi = false, with_hess_psi = false;
    DirsProblem(const KV &kv)
        : PolyProblem(kv), with_grad_gi(kv.nat("provgi", 0) != 0), with_hess_psi(kv.nat("provhpsi", 0) != 0) {}
    void eval_grad_gi(crvec x, index_t i, rvec gr) const {
        for (index_t k = 0; k < n; ++k)
            gr(k) = A(i * n + k) + b(i) * x(k);
    }
    bool provides_eval_grad_gi() const { return with_grad_gi; }
    void eval_hess_ψ_prod(crvec x, crvec y, crvec Σ, real_t scale, crvec v, rvec Hv) const {
        vec gx(m), yh(m), w(n);
        eval_g(x, gx);
        for (index_t i = 0; i < m; ++i) {
            real_t ζ = gx(i) + y(i) / Σ(i);
            real_t pz = std::fmin(std::fmax(ζ, D.lowerbound(i)), D.upperbound(i));
            yh(i)    = Σ(i) * (ζ - pz);
        }
        eval_hess_L_prod(x, yh, scale, v, Hv);
        for (index_t i = 0; i < m; ++i) {
            real_t ζ = gx(i) + y(i) / Σ(i);
            if (!(D.lowerbound(i) < ζ && ζ < D.upperbound(i))) {
                eval_grad_gi(x, i, w);
                Hv += (Σ(i) * w.dot(v)) * w;
            }
        }
    }
    bool provides_eval_hess_ψ_prod() const { return with_hess_psi; }
    std::string get_name() const { return "DirsProblem"; }
};

// ---------------------------------------------------------------- tracing wrapper
struct FullTraceProblem {
    USING_ALPAQA_CONFIG(alpaqa::DefaultConfig);
    using Box = alpaqa::Box<config_t>;
    alpaqa::TypeErasedProblem<config_t> inner;
    Trace *tr;
    long nan_at = 0;
    mutable long n_psi_evals = 0;
    bool wm_scratch = false;
    FullTraceProblem(const DirsProblem *p, Trace *tr) : inner{p}, tr{tr} {}

    // inner (nested) events: appended to the log without a tick
    template <class... A>
    void in_ev(const char *name, const A &...a) const {
        if (!tr->record)
            return;
        tr->ev += " ; EV ";
        tr->ev += name;
        ((tr->ev += ' ', tr->ev += a), ...);
    }

    length_t get_n() const { return inner.get_n(); }
    length_t get_m() const { return inner.get_m(); }
    void eval_proj_diff_g(crvec z, rvec e) const { inner.eval_proj_diff_g(z, e); }
    void eval_proj_multipliers(rvec y, real_t M) const { inner.eval_proj_multipliers(y, M); }
    real_t eval_f(crvec x) const { return inner.eval_f(x); }
    void eval_grad_f(crvec x, rvec g) const { inner.eval_grad_f(x, g); }
    void eval_g(crvec x, rvec g) const {
        inner.eval_g(x, g);
        if (tr->nested)
            in_ev("ig", vp::fmtv(x), vp::fmtv(g));
    }
    void eval_grad_g_prod(crvec x, crvec y, rvec g) const { inner.eval_grad_g_prod(x, y, g); }
    void eval_grad_gi(crvec x, index_t i, rvec g) const {
        inner.eval_grad_gi(x, i, g);
        if (tr->nested)
            in_ev("igradgi", vp::fmtv(x), std::to_string(i), vp::fmtv(g));
    }
    bool provides_eval_grad_gi() const { return inner.provides_eval_grad_gi(); }
    index_t eval_inactive_indices_res_lna(real_t γ, crvec x, crvec g, rindexvec J) const {
        return inner.eval_inactive_indices_res_lna(γ, x, g, J);
    }
    void eval_hess_L_prod(crvec x, crvec y, real_t s, crvec v, rvec Hv) const {
        inner.eval_hess_L_prod(x, y, s, v, Hv);
        if (tr->nested)
            in_ev("ihessL", vp::fmtv(x), vp::f2h(s), vp::fmtv(v), vp::fmtv(Hv));
    }
    bool provides_eval_hess_L_prod() const { return inner.provides_eval_hess_L_prod(); }
    void eval_hess_ψ_prod(crvec x, crvec y, crvec Σ, real_t s, crvec v, rvec Hv) const {
        inner.eval_hess_ψ_prod(x, y, Σ, s, v, Hv);
        if (tr->nested)
            in_ev("ihesspsi", vp::fmtv(x), vp::f2h(s), vp::fmtv(v), vp::fmtv(Hv));
    }
    bool provides_eval_hess_ψ_prod() const { return inner.provides_eval_hess_ψ_prod(); }
    const Box &get_box_C() const { return inner.get_box_C(); }
    const Box &get_box_D() const { return inner.get_box_D(); }
    bool provides_get_box_C() const { return inner.provides_get_box_C(); }
    bool provides_get_box_D() const { return inner.provides_get_box_D(); }
    void check() const { inner.check(); }
    std::string get_name() const { return "FullTraceProblem"; }

    real_t poison(real_t v) const {
        ++n_psi_evals;
        return (nan_at && n_psi_evals == nan_at) ? std::numeric_limits<real_t>::quiet_NaN() : v;
    }
    real_t eval_prox_grad_step(real_t γ, crvec x, crvec g, rvec xh, rvec p) const {
        tr->begin("prox");
        tr->num(γ), tr->v(x), tr->v(g);
        real_t h = inner.eval_prox_grad_step(γ, x, g, xh, p);
        tr->num(h), tr->v(xh), tr->v(p);
        return h;
    }
    real_t eval_ψ(crvec x, crvec y, crvec Σ, rvec ŷ) const {
        tr->begin("psi");
        tr->v(x);
        real_t r = poison(inner.eval_ψ(x, y, Σ, ŷ));
        tr->num(r), tr->v(ŷ);
        return r;
    }
    void eval_grad_ψ(crvec x, crvec y, crvec Σ, rvec g, rvec wn, rvec wm) const {
        if (tr->nested) {
            inner.eval_grad_ψ(x, y, Σ, g, wn, wm);
            in_ev("igradpsi", vp::fmtv(x), vp::fmtv(g));
            return;
        }
        tr->begin("gradpsi");
        tr->v(x);
        inner.eval_grad_ψ(x, y, Σ, g, wn, wm);
        tr->v(g);
    }
    real_t eval_ψ_grad_ψ(crvec x, crvec y, crvec Σ, rvec g, rvec wn, rvec wm) const {
        tr->begin("psigradpsi");
        tr->v(x);
        real_t r = poison(inner.eval_ψ_grad_ψ(x, y, Σ, g, wn, wm));
        if (wm_scratch)
            wm.setConstant(real_t(777));
        tr->num(r), tr->v(g), tr->v(wm);
        return r;
    }
    void eval_grad_L(crvec x, crvec y, rvec g, rvec wn) const {
        tr->begin("gradL");
        tr->v(x), tr->v(y);
        inner.eval_grad_L(x, y, g, wn);
        tr->v(g);
    }
};

// ---------------------------------------------------------------- provider construction
inline alpaqa::LBFGSParams<config_t> lbfgs_params(const KV &kv) {
    alpaqa::LBFGSParams<config_t> p;
    p.memory = kv.nat("mem", 5);
    if (kv.has("mdf"))
        p.min_div_fac = kv.flt("mdf");
    if (kv.has("mas"))
        p.min_abs_s = kv.flt("mas");
    if (kv.has("ca"))
        p.cbfgs.α = kv.flt("ca");
    if (kv.has("ce"))
        p.cbfgs.ϵ = kv.flt("ce");
    if (kv.has("fpd"))
        p.force_pos_def = kv.nat("fpd") != 0;
    if (kv.has("curv"))
        p.stepsize = kv.nat("curv") != 0 ? alpaqa::LBFGSStepSize::BasedOnCurvature
                                         : alpaqa::LBFGSStepSize::BasedOnExternalStepSize;
    return p;
}
inline alpaqa::LBFGSDirection<config_t> make_lbfgs(const KV &kv) {
    alpaqa::LBFGSDirectionParams<config_t> dp;
    dp.rescale_on_step_size_changes = kv.nat("rescale", 0) != 0;
    return {lbfgs_params(kv), dp};
}
inline alpaqa::StructuredLBFGSDirection<config_t> make_slbfgs(const KV &kv) {
    using DP = alpaqa::StructuredLBFGSDirectionParams<config_t>;
    DP dp;
    dp.hessian_vec_factor = kv.flt("hvf", 0);
    if (kv.has("hvfd"))
        dp.hessian_vec_finite_differences = kv.nat("hvfd") != 0;
    if (kv.has("fullaug"))
        dp.full_augmented_hessian = kv.nat("fullaug") != 0;
    if (kv.has("fpol"))
        dp.failure_policy = static_cast<typename DP::FailurePolicy>(kv.nat("fpol"));
    return {lbfgs_params(kv), dp};
}
inline alpaqa::AndersonDirection<config_t> make_anderson(const KV &kv) {
    alpaqa::AndersonAccelParams<config_t> ap;
    ap.memory = kv.nat("mem", 5);
    if (kv.has("amdf"))
        ap.min_div_fac = kv.flt("amdf");
    alpaqa::AndersonDirectionParams<config_t> dp;
    dp.rescale_on_step_size_changes = kv.nat("rescale", 0) != 0;
    return {ap, dp};
}

// ---------------------------------------------------------------- state dumps
inline std::string dump_lbfgs(const alpaqa::LBFGS<config_t> &l) {
    std::string s;
    if (l.history() == 0)
        return "L 0 0 0 0";
    std::vector<index_t> f, r;
    l.foreach_fwd([&](index_t i) { f.push_back(i); });
    l.foreach_rev([&](index_t i) { r.push_back(i); });
    s = "L " + std::to_string(l.n()) + ' ' + std::to_string(l.history()) + ' ' + std::to_string(l.current_history());
    s += ' ' + std::to_string(f.size());
    for (auto i : f)
        s += ' ' + std::to_string(i);
    for (auto i : r)
        s += ' ' + std::to_string(i);
    for (auto i : f)
        s += ' ' + vp::fmtv(l.s(i)) + ' ' + vp::fmtv(l.y(i)) + ' ' + vp::f2h(l.ρ(i));
    return s;
}

inline std::string dump_aa(const alpaqa::AndersonAccel<config_t> &aa) {
    const auto &qr = aa.get_QR();
    std::string s = std::string("A ") + (aa.initialized ? "1" : "0") + ' ' + std::to_string(qr.n()) + ' ' +
                    std::to_string(qr.m());
    if (!aa.initialized)
        return s;
    index_t K = qr.num_columns();
    s += ' ' + std::to_string(K) + ' ' + std::to_string(qr.ring_head()) + ' ' + std::to_string(qr.ring_tail()) +
         ' ' + vp::f2h(qr.get_min_eig()) + ' ' + vp::f2h(qr.get_max_eig());
    std::vector<index_t> cols;
    for (auto [i, c] : qr.ring_iter())
        cols.push_back(c);
    cols.push_back(qr.ring_tail());
    s += " | " + std::to_string(cols.size() * aa.n());
    for (auto c : cols)
        for (index_t i = 0; i < aa.n(); ++i)
            s += ' ' + vp::f2h(aa.G(i, c));
    s += " | " + vp::fmtv(aa.rₗₐₛₜ);
    s += " | " + vp::fmtv(aa.γ_LS.head(K));
    mat R = qr.get_R();
    mat Q = qr.get_Q();
    s += " | " + std::to_string(K * K);
    for (index_t k = 0; k < K; ++k)
        for (index_t i = 0; i < K; ++i)
            s += ' ' + vp::f2h(R(i, k));
    s += " | " + std::to_string(qr.n() * K);
    for (index_t k = 0; k < K; ++k)
        for (index_t i = 0; i < qr.n(); ++i)
            s += ' ' + vp::f2h(Q(i, k));
    return s;
}

} // namespace vd
