// C18 harness: runs alpaqa::params::set_params (the real code, compiled from the working tree) on
// op lines from stdin and dumps ALL leaves of the object afterwards.
//
//   pre <top> <D|P>
//       -> "<n> (<pathHex> <val>)*"            leaves of the default (D) / perturbed (P) object
//   set <top> <D|P> <n> (<pathHex> <val>)* <prefixHex> <k> <optHex>*k <m> (<strHex> <res>)*m
//       [<f> (<nameHex> <contentHex> <rowTok>)*f]
//       -> "<status> <used,…|-> <n> <val>*n"    status = ok | exc:<kind> | pre-mismatch
//      (the oracle section <m>… and the <rowTok>s are for the Lean driver only and are ignored
//       here; the files <name> are created with <content> in a private temporary directory — the
//       process's working directory — for the duration of the op, so that `@<name>` resolves)
//
// <top> is a struct of C18_TOP_STRUCTS (generated from params.cpp's instantiation list), an enum
// with an ENUM_TABLE, or a leaf type name (bool, f64, i8…u64, ns, us, ms, s, min, h, vec), or
// vff / vff2 = params::vec_from_file with expected_size −1 / 2 (D: value disengaged, P: [1.5, 2.5]).
// The struct walkers come from the GENERATED header c18_tables.hpp (gen/gen_c18.py, every run).
#include "proto.hpp"
#include <alpaqa/config/config.hpp>
#include <alpaqa/params/params.hpp>
#include <alpaqa/params/vec-from-file.hpp>

#include <alpaqa/inner/directions/panoc/anderson.hpp>
#include <alpaqa/inner/directions/panoc/convex-newton.hpp>
#include <alpaqa/inner/directions/panoc/lbfgs.hpp>
#include <alpaqa/inner/directions/panoc/structured-lbfgs.hpp>
#include <alpaqa/inner/directions/panoc/structured-newton.hpp>
#include <alpaqa/inner/directions/pantr/newton-tr.hpp>
#include <alpaqa/inner/fista.hpp>
#include <alpaqa/inner/internal/lipschitz.hpp>
#include <alpaqa/inner/internal/panoc-stop-crit.hpp>
#include <alpaqa/inner/panoc.hpp>
#include <alpaqa/inner/pantr.hpp>
#include <alpaqa/inner/zerofpr.hpp>
#include <alpaqa/outer/alm.hpp>
#include <alpaqa/inner/panoc-ocp.hpp>

#include <chrono>
#include <cstdlib>
#include <fstream>
#include <unistd.h>
#include <optional>
#include <span>
#include <type_traits>

using config_t = alpaqa::DefaultConfig;
using real_t   = config_t::real_t;
using vec      = config_t::vec;

#include "c18_tables.hpp"

template <class T>
inline constexpr bool is_dur = false;
template <class R, class P>
inline constexpr bool is_dur<std::chrono::duration<R, P>> = true;

// leaf tops: walk = the object itself, path ""
template <class V, class T>
    requires(std::is_arithmetic_v<T> || std::is_enum_v<T> || is_dur<T> || std::is_same_v<T, vec>)
void c18_walk(V &v, const std::string &, T &t) {
    v.leaf(std::string{}, t);
}

// vec_from_file tops: the object with a fixed expected_size (set by the constructor below, as
// driver/problem.cpp does with `vec_from_file x0{n}`); leaves: the optional value, expected_size
using vff_t = alpaqa::params::vec_from_file<config_t>;
template <long N>
struct VffTop {
    vff_t o{N};
};
template <class V, long N>
void c18_walk(V &v, const std::string &, VffTop<N> &t) {
    v.leaf(std::string{}, t.o.value);
    // expected_size is fixed by the owner of the object, not a parameter: dumped, never perturbed
    auto es = t.o.expected_size;
    v.leaf(std::string{"expected_size"}, t.o.expected_size);
    if constexpr (requires { v.idx; })
        t.o.expected_size = es;
}
namespace alpaqa::params {
template <long N>
void c18_set_params(VffTop<N> &t, std::string_view prefix, std::span<const std::string_view> opts,
                    std::optional<std::span<unsigned>> used) {
    set_params(t.o, prefix, opts, used);
}
} // namespace alpaqa::params


namespace {

std::string hexenc(const std::string &s) {
    if (s.empty())
        return "-";
    static const char *d = "0123456789abcdef";
    std::string o;
    for (unsigned char c : s) {
        o += d[c >> 4];
        o += d[c & 15];
    }
    return o;
}
std::string hexdec(const std::string &h) {
    if (h == "-")
        return {};
    std::string o;
    for (size_t i = 0; i + 1 < h.size(); i += 2)
        o += static_cast<char>(std::stoi(h.substr(i, 2), nullptr, 16));
    return o;
}

template <class T>
std::string leaf_str(const T &x) {
    if constexpr (std::is_same_v<T, bool>)
        return x ? "b1" : "b0";
    else if constexpr (std::is_floating_point_v<T>)
        return "r" + vp::f2h(static_cast<double>(x));
    else if constexpr (std::is_enum_v<T>)
        return "e" + std::to_string(static_cast<long long>(x));
    else if constexpr (is_dur<T>)
        return "d" + std::to_string(static_cast<long long>(x.count()));
    else if constexpr (std::is_same_v<T, vec>) {
        std::string s = "v" + std::to_string(x.size());
        for (Eigen::Index i = 0; i < x.size(); ++i)
            s += (i ? "," : ":") + vp::f2h(x(i));
        return s;
    } else if constexpr (std::is_same_v<T, std::optional<vec>>) {
        // `on` = disengaged, `ov<k>:…` = engaged (every element is determinate here: emplace()
        // gives size 0, and a stored vector was completely parsed)
        return x ? "o" + leaf_str(*x) : std::string("on");
    } else if constexpr (std::is_integral_v<T>) {
        if constexpr (std::is_signed_v<T>)
            return "i" + std::to_string(static_cast<long long>(x));
        else
            return "i" + std::to_string(static_cast<unsigned long long>(x));
    } else
        static_assert(std::is_same_v<T, void>, "leaf type without a dumper");
}

struct Dump {
    std::vector<std::pair<std::string, std::string>> out;
    template <class T>
    void leaf(const std::string &path, T &x) {
        out.emplace_back(path, leaf_str(x));
    }
};

/// Gives every leaf a value different from its default (and from its neighbours).
struct Perturb {
    int idx = 0;
    template <class T>
    void leaf(const std::string &, T &x) {
        ++idx;
        if constexpr (std::is_same_v<T, bool>)
            x = !x;
        else if constexpr (std::is_floating_point_v<T>)
            x = static_cast<T>(2 + 0.375 * idx);
        else if constexpr (std::is_enum_v<T>)
            x = static_cast<T>((static_cast<int>(x) + 1) % 2);
        else if constexpr (is_dur<T>)
            x += T{12345 + idx};
        else if constexpr (std::is_same_v<T, vec>) {
            x.resize(2);
            x << 1.5, 2.5;
        } else if constexpr (std::is_same_v<T, std::optional<vec>>) {
            x.emplace(2);
            *x << 1.5, 2.5;
        } else if constexpr (std::is_integral_v<T>)
            x = static_cast<T>(x + 7 + idx);
    }
};

std::string classify(const std::exception &e) {
    std::string w = e.what();
    auto has = [&](const char *s) { return w.find(s) != std::string::npos; };
    if (has("cannot be indexed"))
        return "indexed";
    if (w.rfind("Unable to open file", 0) == 0)
        return "fileOpen";
    if (w.rfind("Unable to read from file", 0) == 0)
        return "fileRead";
    if (w.rfind("Incorrect size", 0) == 0)
        return "badSize";
    if (w.rfind("Invalid key", 0) == 0)
        return "invalidKey";
    if (w.rfind("Invalid suffix", 0) == 0)
        return "numSuffix";
    if (w.rfind("Invalid units", 0) == 0)
        return "durUnits";
    if (has("': error at '"))
        return "durValue";
    if (has("for enum '"))
        return "badEnum";
    if (has("for type 'bool'"))
        return "badBool";
    if (w.rfind("Invalid value", 0) == 0 &&
        has(std::make_error_code(std::errc::invalid_argument).message().c_str()))
        return "numInvalid";
    if (w.rfind("Invalid value", 0) == 0 &&
        has(std::make_error_code(std::errc::result_out_of_range).message().c_str()))
        return "numRange";
    return "other";
}

template <class T>
std::string run(const std::string &op, vp::Toks &t) {
    std::string flavour = t.tok();
    T obj{};
    if (flavour == "P") {
        Perturb p;
        c18_walk(p, "", obj);
    }
    Dump pre;
    c18_walk(pre, "", obj);
    if (op == "pre") {
        std::string s = std::to_string(pre.out.size());
        for (auto &[p, v] : pre.out)
            s += ' ' + hexenc(p) + ' ' + v;
        return s;
    }
    long n = t.nat();
    bool mismatch = n != (long)pre.out.size();
    for (long i = 0; i < n; ++i) {
        std::string p = hexdec(t.tok()), v = t.tok();
        if (!mismatch && (pre.out[i].first != p || pre.out[i].second != v))
            mismatch = true;
    }
    if (mismatch)
        return "pre-mismatch";
    std::string prefix = hexdec(t.tok());
    long k             = t.nat();
    std::vector<std::string> store(k);
    for (auto &s : store)
        s = hexdec(t.tok());
    std::vector<std::string_view> opts(store.begin(), store.end());
    std::vector<unsigned> used(k, 0);
    // skip the oracle section, create the files of the file section
    std::vector<std::string> files;
    if (!t.done()) {
        long m = t.nat();
        for (long i = 0; i < 2 * m; ++i)
            t.tok();
    }
    if (!t.done()) {
        long f = t.nat();
        for (long i = 0; i < f; ++i) {
            std::string name = hexdec(t.tok()), content = hexdec(t.tok());
            t.tok();
            if (name.empty() || name.find('/') != std::string::npos)
                return "bad-op";
            std::ofstream(name, std::ios::binary) << content;
            files.push_back(name);
        }
    }
    std::string status = "ok";
    try {
        if constexpr (requires { obj.o.expected_size; })
            alpaqa::params::c18_set_params(obj, prefix, std::span<const std::string_view>{opts},
                                           std::optional<std::span<unsigned>>{std::span<unsigned>{used}});
        else
            alpaqa::params::set_params(obj, prefix, std::span<const std::string_view>{opts},
                                       std::optional<std::span<unsigned>>{std::span<unsigned>{used}});
    } catch (std::exception &e) {
        status = "exc:" + classify(e);
    } catch (...) {
        status = "exc:other";
    }
    for (auto &fn : files)
        ::unlink(fn.c_str());
    Dump post;
    c18_walk(post, "", obj);
    std::string s = status + ' ';
    if (k == 0)
        s += '-';
    for (long i = 0; i < k; ++i)
        s += (i ? "," : "") + std::to_string(used[i]);
    s += ' ' + std::to_string(post.out.size());
    // every leaf is dumped completely (each setter stores a completely parsed value or nothing;
    // vec_from_file's emplace() gives size 0)
    for (size_t i = 0; i < post.out.size(); ++i)
        s += ' ' + post.out[i].second;
    return s;
}

} // namespace

int main() {
    // private working directory for the `@file` options
    char tmpl[] = "/tmp/c18_harness_XXXXXX";
    const char *dir = ::mkdtemp(tmpl);
    if (!dir || ::chdir(dir) != 0) {
        std::cerr << "cannot create the temporary directory\n";
        return 2;
    }
    struct Cleanup {
        std::string d;
        ~Cleanup() { ::chdir("/"); ::rmdir(d.c_str()); }
    } cleanup{dir};
    std::string line;
    while (std::getline(std::cin, line)) {
        vp::Toks t(line);
        std::string op  = t.tok();
        std::string top = t.tok();
        std::string out = "bad-op";
        try {
            if (op != "pre" && op != "set") {
            }
#define C18_X(name) else if (top == #name) out = run<alpaqa::name<config_t>>(op, t);
            C18_TOP_STRUCTS(C18_X)
#undef C18_X
#define C18_X(name) else if (top == #name) out = run<alpaqa::name>(op, t);
            C18_TOP_ENUMS(C18_X)
#undef C18_X
            else if (top == "bool") out = run<bool>(op, t);
            else if (top == "f64") out = run<double>(op, t);
            else if (top == "i8") out = run<int8_t>(op, t);
            else if (top == "u8") out = run<uint8_t>(op, t);
            else if (top == "i16") out = run<int16_t>(op, t);
            else if (top == "u16") out = run<uint16_t>(op, t);
            else if (top == "i32") out = run<int32_t>(op, t);
            else if (top == "u32") out = run<uint32_t>(op, t);
            else if (top == "i64") out = run<int64_t>(op, t);
            else if (top == "u64") out = run<uint64_t>(op, t);
            else if (top == "ns") out = run<std::chrono::nanoseconds>(op, t);
            else if (top == "us") out = run<std::chrono::microseconds>(op, t);
            else if (top == "ms") out = run<std::chrono::milliseconds>(op, t);
            else if (top == "s") out = run<std::chrono::seconds>(op, t);
            else if (top == "min") out = run<std::chrono::minutes>(op, t);
            else if (top == "h") out = run<std::chrono::hours>(op, t);
            else if (top == "vec") out = run<vec>(op, t);
            else if (top == "vff") out = run<VffTop<-1>>(op, t);
            else if (top == "vff2") out = run<VffTop<2>>(op, t);
        } catch (std::exception &e) {
            out = std::string("harness-exception");
        }
        std::cout << out << '\n';
    }
}
